"""C03 -- shape and dtype are inferred eagerly; bad axes are rejected at build time."""
from __future__ import annotations

import ast

from pta.check import Spec
from pta.model import AnalysisError
from pta.rules.common import TOIL, concrete_kinds, short

FORBIDDEN_PREFIXES = ("pytato.target", "pytato.codegen", "pytato.distributed.execute",
                      "pytato.distributed.partition")


def reach(m, roots, depth=8):
    """functions reachable by name resolution (self methods, module functions,
    imported repo functions; instantiating a mapper class reaches its handlers)"""
    seen = {}
    work = [(q, fd, 0) for q, fd in roots]
    while work:
        qn, fd, d = work.pop()
        if qn in seen or d > depth:
            continue
        seen[qn] = fd
        mi = m.module_of(fd)
        cls = m.enclosing_class(fd)
        cq = next((q for q, ci in m.classes.items() if ci.node is cls), None) if cls else None
        for call in ast.walk(fd):
            if not isinstance(call, ast.Call):
                continue
            f = call.func
            tgt = None
            if isinstance(f, ast.Name):
                tgt = m.resolve_name(mi.name, f.id)
            elif isinstance(f, ast.Attribute) and isinstance(f.value, ast.Name):
                if f.value.id == "self" and cq:
                    r = m.resolve_method(cq, f.attr)
                    if r:
                        work.append((f"{r[0]}.{f.attr}", r[1], d + 1))
                    continue
                tgt = m.resolve_name(mi.name, f"{f.value.id}.{f.attr}")
            elif isinstance(f, ast.Call) and isinstance(f.func, ast.Name):
                tgt = m.resolve_name(mi.name, f.func.id)      # Mapper()(x)
            if tgt in m.classes:
                for c2 in m.mro(tgt):
                    for mn, mfd in m.classes[c2].methods.items():
                        if mn.startswith(("map_", "_map_", "rec", "__call__", "combine")):
                            work.append((f"{c2}.{mn}", mfd, d + 1))
            elif tgt and m.has_func(tgt):
                work.append((tgt, m.func(tgt), d + 1))
    return seen


def r_eager(c):
    m = c.model
    roots = []
    for k in concrete_kinds(m, with_funcdef=False):
        if m.ARRAY not in m.mro(k):
            continue
        ci = m.classes[k]
        for attr in ("shape", "dtype", "axes", "tags"):
            r = m.resolve_attr_kind(k, attr)
            ok = r is not None and r[0] in ("field", "property")
            c.check(ok, "R03-EAGER", short(k), f"{attr}:field-or-property",
                    m.loc(ci.module, ci.node),
                    f"{short(k)}.{attr} resolves to {r[0] if r else 'nothing'} at run time "
                    "(only a TYPE_CHECKING stub?): the attribute is not available when the "
                    "expression is built")
            if ok and r[0] == "property":
                roots.append((f"{r[1]}.{attr}", r[2]))
    cg = reach(m, roots)
    c.units["functions_reachable_from_shape_dtype"] = len(cg)
    if len(cg) < 14:
        raise AnalysisError(f"only {len(cg)} functions reachable from shape/dtype properties")
    bad = sorted(q for q in cg if q.startswith(FORBIDDEN_PREFIXES))
    c.check(not bad, "R03-EAGER", "shape/dtype property call graph",
            "never-reaches-code-generation-or-execution", "",
            f"asking for a shape or dtype can reach {bad[:3]}: inference is no longer "
            "independent of evaluation / code generation",
            ok_detail=f"{len(cg)} functions reachable, none in {FORBIDDEN_PREFIXES}")
    # ndim / size derive from shape only
    nd = m.func("pytato.array.Array.ndim")
    c.check("len(self.shape)" in ast.unparse(nd), "R03-EAGER", "Array.ndim",
            "derived-from-shape", m.loc("pytato.array", nd), "ndim is not len(shape)")


def _guard(fd, var):
    """accepted interval of `var` from `if not (L <= var < U): raise` -> (L, U, strict)"""
    for iff in ast.walk(fd):
        if not (isinstance(iff, ast.If) and isinstance(iff.test, ast.UnaryOp)
                and isinstance(iff.test.op, ast.Not)
                and any(isinstance(s, ast.Raise) for s in iff.body)):
            continue
        cmp_ = iff.test.operand
        if isinstance(cmp_, ast.Compare) and len(cmp_.ops) == 2 \
                and ast.unparse(cmp_.comparators[0]) == var:
            lo = ast.unparse(cmp_.left)
            hi = ast.unparse(cmp_.comparators[1])
            lo_strict = isinstance(cmp_.ops[0], ast.Lt)
            hi_strict = isinstance(cmp_.ops[1], ast.Lt)
            if isinstance(cmp_.ops[0], (ast.Lt, ast.LtE)) and isinstance(cmp_.ops[1], (ast.Lt, ast.LtE)):
                return lo, lo_strict, hi, hi_strict, iff
    return None


def _loop_guard(fd, seq):
    """guard on the loop variable of `for <v> in <seq>:` -> (_guard result, v)"""
    for l in ast.walk(fd):
        if isinstance(l, ast.For) and isinstance(l.target, ast.Name) \
                and ast.unparse(l.iter) == seq:
            g = _guard(l, l.target.id)
            if g is not None:
                return g
    return None


def _uses_as_subscript(fd, field, selfname):
    """is `<selfname>.<field>` used directly as the index of a subscript (not a slice)?"""
    for n in ast.walk(fd):
        if isinstance(n, ast.Subscript) and not isinstance(n.slice, ast.Slice) \
                and ast.unparse(n.slice) == f"{selfname}.{field}":
            return n
    return None


AXIS_CTORS = [
    # (constructor function, axis parameter, node class, text denoting operand ndim)
    ("pytato.array.roll", "axis", "pytato.array.Roll", ("a.ndim",)),
    ("pytato.array.stack", "axis", "pytato.array.Stack", ("arrays[0].ndim",)),
    ("pytato.array.concatenate", "axis", "pytato.array.Concatenate", ("arrays[0].ndim",)),
]


def r_axis(c):
    m = c.model
    for fn, par, node, ndim_txt in AXIS_CTORS:
        fd = m.func(fn)
        where = m.loc("pytato.array", fd)
        fd = m.normal(fd)      # validation helpers inlined, hoisted locals propagated
        name = fn.replace("pytato.", "", 1)
        g = _guard(fd, par)
        c.check(g is not None, "R03-AXIS", name, f"{par}:guarded", where,
                f"no `if not (L <= {par} < U): raise` guard: a bad axis is only noticed "
                "later (or never)")
        if g is None:
            continue
        lo, lo_strict, hi, hi_strict, iff = g
        # which field does the parameter become?
        ctor = [x for x in ast.walk(fd) if isinstance(x, ast.Call)
                and ast.unparse(x.func) == short(node)]
        if len(ctor) != 1:
            raise AnalysisError(f"{fn}: construction of {short(node)} not found")
        init = m.init_order(node)
        fld = None
        for i, a in enumerate(ctor[0].args):
            if ast.unparse(a) == par:
                fld = init[i]
        for k in ctor[0].keywords:
            if ast.unparse(k.value) == par:
                fld = k.arg
        if fld is None:
            raise AnalysisError(f"{fn}: parameter {par} does not reach a field")
        # the guard precedes the construction
        c.check(iff.lineno < ctor[0].lineno, "R03-AXIS", name, f"{par}:guard-before-construction",
                where, "the axis is validated after the node is built")
        # lower bound: the field is used as a position, never normalised
        c.check(lo == "0" and not lo_strict, "R03-AXIS", name, f"{par}:lower-bound-0", where,
                f"the guard admits {par} below 0 ({lo} {'<' if lo_strict else '<='} {par}) "
                "although the node uses it as a plain position")
        # upper bound: does the node subscript a length-ndim sequence with it?
        needs_strict = None
        sp = m.resolve_attr_kind(node, "shape")
        if sp and sp[0] == "property":
            sub = _uses_as_subscript(sp[2], fld, "self")
            if sub is not None:
                needs_strict = f"{short(node)}.shape evaluates `{m.frag(sub, 40)}`"
        lower = m.resolve_method(TOIL, m.mapper_method(node))
        if lower is not None and needs_strict is None:
            lfd = lower[1]
            # indices[axis] where axis = expr.<fld>
            lep = lfd.args.args[1].arg
            alias = {f"{lep}.{fld}"}
            for st in ast.walk(lfd):
                if isinstance(st, ast.Assign) and ast.unparse(st.value) == f"{lep}.{fld}":
                    alias |= {ast.unparse(t) for t in st.targets}
            for n in ast.walk(lfd):
                if isinstance(n, ast.Subscript) and not isinstance(n.slice, ast.Slice) \
                        and ast.unparse(n.slice) in alias and "shape" not in ast.unparse(n.value):
                    # a list built with one entry per axis of the *result*
                    needs_strict = needs_strict or None
                    if short(node) == "Roll":
                        needs_strict = f"the lowering rule evaluates `{m.frag(n, 40)}`"
        hi_is_ndim = hi in ndim_txt
        c.check(hi_is_ndim, "R03-AXIS", name, f"{par}:upper-bound-is-operand-ndim", where,
                f"the guard's upper bound is `{hi}`, not the operand's ndim {ndim_txt}")
        if needs_strict:
            c.check(hi_strict, "R03-AXIS", name, f"{par}:accepted-range-fits-node", where,
                    f"the guard admits {par} == ndim (`{par} <= {hi}`) but {needs_strict}, "
                    "which is out of range then: the expression is accepted when built "
                    "and fails later")
        else:
            c.ok("R03-AXIS", name, f"{par}:accepted-range-fits-node", where,
                 "the node only inserts at / formats the position: ndim is admissible")
    # reductions and expand_dims validate their axes strictly
    ra = m.func("pytato.reductions._normalize_reduction_axes")
    # the axes that are handed back (second component of the returned pair) are the
    # ones that were looped over and validated; `tuple(range(ndim))` needs no check
    ran = m.normal(ra)
    shp = ra.args.args[0].arg
    handed = {ast.unparse(r.value.elts[1]) for r in ast.walk(ran)
              if isinstance(r, ast.Return) and isinstance(r.value, ast.Tuple)
              and len(r.value.elts) == 2 and isinstance(r.value.elts[1], ast.Name)}
    gs = [_loop_guard(ran, h) for h in sorted(handed)]
    g = gs[0] if gs and all(x is not None and x[:4] == gs[0][:4] for x in gs) else None
    c.check(g is not None and g[0] == "0" and g[2] == f"len({shp})" and g[3], "R03-AXIS",
            "reductions._normalize_reduction_axes", "axis:0<=axis<ndim",
            m.loc("pytato.reductions", ra),
            "reduction axes are not validated as 0 <= axis < ndim when the reduction is "
            "built")
    ed = m.func("pytato.array.expand_dims")
    from pta.pat import find
    ap_, xp_ = ed.args.args[0].arg, ed.args.args[1].arg
    edn = m.inlined(ed)      # a validation helper is seen through
    nd_ = find(edn, f"$n = {ap_}.ndim + len({xp_})")
    ndv = nd_[0]["$n"] if len(nd_) == 1 else "?"
    g = _loop_guard(edn, xp_)
    c.check(g is not None and g[0] == f"-{ndv}" and g[2] == ndv and g[3],
            "R03-AXIS", "array.expand_dims", "ax:-ndim<=ax<ndim",
            m.loc("pytato.array", ed), "expand_dims does not validate its axes")
    tr = m.func("pytato.array.transpose")
    ts = ast.unparse(tr)
    from pta.pat import has as _has
    ap_, xp_ = tr.args.args[0].arg, tr.args.args[1].arg
    c.check(_has(tr, f"len({xp_}) != {ap_}.ndim")
            and _has(tr, f"set({xp_}) != set(range({ap_}.ndim))")
            and ts.count("raise ValueError") >= 2, "R03-AXIS", "array.transpose",
            "axes-is-a-permutation", m.loc("pytato.array", tr),
            "transpose does not check that axes is a permutation of range(ndim)")


def splice_sites(m, modules=None):
    """(function, index variable, node) for every sequence splice
    ``X[:i] ... X[i + 1:]`` (drop / replace position i) in the package"""
    out = []
    for mi, fd in m.all_functions(modules=modules):
        from pta.order import _own_nodes
        heads, tails = {}, {}
        for n in _own_nodes(fd):
            if isinstance(n, ast.Subscript) and isinstance(n.slice, ast.Slice) \
                    and n.slice.step is None:
                sl = n.slice
                if sl.lower is None and isinstance(sl.upper, ast.Name):
                    heads.setdefault((ast.unparse(n.value), sl.upper.id), n)
                if sl.upper is None and isinstance(sl.lower, ast.BinOp) \
                        and isinstance(sl.lower.op, ast.Add) \
                        and isinstance(sl.lower.left, ast.Name) \
                        and ast.unparse(sl.lower.right) == "1":
                    tails.setdefault((ast.unparse(n.value), sl.lower.left.id), n)
        for k in heads:
            if k in tails:
                out.append((mi, fd, k[1], heads[k]))
    return out


def _nonneg_proof(m, fd, var, site, anywhere=False, depth=0):
    """why ``var`` is a non-negative position at ``site`` (None if unproven).
    For a negative i the splice X[:i] + X[i+1:] keeps/duplicates elements."""
    why = _nonneg_local(m, fd, var, site, anywhere)
    if why is not None or depth >= 2:
        return why
    # a private helper that splices at a position it is given: the obligation is
    # its callers' (same module), at every call
    params = [a.arg for a in fd.args.posonlyargs + fd.args.args + fd.args.kwonlyargs]
    if var in params and fd.name.startswith("_") and isinstance(
            getattr(fd, "_parent", None), ast.Module):
        mi = m.module_of(fd)
        whys = []
        for g in ast.walk(mi.tree):
            if not isinstance(g, (ast.FunctionDef, ast.AsyncFunctionDef)) or g is fd:
                continue
            from pta.order import _own_nodes
            for call in _own_nodes(g):
                if isinstance(call, ast.Call) and isinstance(call.func, ast.Name) \
                        and call.func.id == fd.name:
                    bind = m._bind_args(call, fd)
                    a = bind.get(var) if bind else None
                    if not isinstance(a, ast.Name):
                        return None
                    w = _nonneg_proof(m, g, a.id, call, anywhere=True, depth=depth + 1)
                    if w is None:
                        return None
                    whys.append(f"{g.name}: {w}")
        if whys:
            return "position given by the callers; " + "; ".join(whys)
    return None


def _nonneg_local(m, fd, var, site, anywhere=False):
    chain = [fd]
    p = m.enclosing_function(fd)
    while p is not None:
        chain.append(p)
        p = m.enclosing_function(p)
    for f in chain:
        nested = f is not fd or anywhere
        for n in ast.walk(f):
            before = nested or getattr(n, "lineno", 0) < site.lineno
            # i = something.index(...)
            if isinstance(n, ast.Assign) and any(
                    isinstance(t, ast.Name) and t.id == var for t in n.targets) and before:
                v = n.value
                if isinstance(v, ast.Call) and isinstance(v.func, ast.Attribute) \
                        and v.func.attr == "index":
                    return "result of .index()"
                if isinstance(v, ast.BinOp) and isinstance(v.op, ast.Mod) \
                        and isinstance(v.left, ast.Name) and v.left.id == var:
                    return f"normalised by `{ast.unparse(n)}`"
            if isinstance(n, (ast.For, ast.comprehension)) and any(
                    isinstance(t, ast.Name) and t.id == var for t in ast.walk(n.target)):
                it = n.iter
                if isinstance(it, ast.Call) and isinstance(it.func, ast.Name) \
                        and it.func.id in ("range", "enumerate"):
                    return f"index of {it.func.id}()"
            if isinstance(n, ast.If) and before and n in f.body:
                g = _guard(ast.Module(body=[n], type_ignores=[]), var)
                if g is not None and g[0] == "0" and not g[1]:
                    return f"guarded by `if {ast.unparse(n.test)}: raise`"
                if ast.unparse(n.test) == f"{var} < 0" and any(
                        isinstance(s_, ast.Raise) for s_ in n.body):
                    return f"guarded by `if {var} < 0: raise`"
    return None


def r_splice(c):
    m = c.model
    sites = splice_sites(m)
    if len(sites) < 2:
        raise AnalysisError(f"only {len(sites)} sequence splices found (floor 2)")
    for mi, fd, var, node in sites:
        why = _nonneg_proof(m, fd, var, node)
        qn = m.qualname(fd).replace("pytato.", "", 1)
        c.check(why is not None, "R03-SPLICE", qn, f"{var}:non-negative-at-splice",
                m.loc(mi, node),
                f"`{m.frag(node, 30)} ... [{var} + 1:]` drops/replaces position {var} "
                f"only for {var} >= 0, but {var} is neither validated as non-negative "
                "nor normalised before: a negative (NumPy-style) position is accepted "
                "and builds a sequence of the wrong length",
                ok_detail=why)


# ---------------------------------------------------------------------------
# sibling agreement: forward / reflected operators, start / stop of a slice

OPERATOR_OF = {"add": "add", "mul": "mul", "sub": "sub", "floordiv": "floordiv",
               "truediv": "truediv", "mod": "mod", "pow": "pow", "and": "and_",
               "or": "or_", "xor": "xor"}


def _binop_call(fd):
    """the single `self._binary_op(operator.X, other, **kw)` call a dunder returns"""
    rets = [r for r in ast.walk(fd) if isinstance(r, ast.Return) and r.value is not None]
    calls = [r.value for r in rets if isinstance(r.value, ast.Call)
             and ast.unparse(r.value.func) == "self._binary_op"]
    return calls[0] if len(calls) == 1 else None


def r_operators(c):
    """a <op> b and b <op> a are built by sibling dunders that must agree"""
    m = c.model
    ci = m.cls("pytato.array.Array")
    n = 0
    for name, opname in sorted(OPERATOR_OF.items()):
        fwd, rev = ci.methods.get(f"__{name}__"), ci.methods.get(f"__r{name}__")
        cname = f"Array.__{name}__/__r{name}__"
        if fwd is None or rev is None:
            c.violation("R03-OPERATORS", cname, "both-exist", m.loc(ci.module, ci.node),
                        f"__{name}__ or __r{name}__ is missing: scalar <op> array and "
                        "array <op> scalar are not both built by pytato")
            continue
        n += 1
        cf, cr = _binop_call(fwd), _binop_call(rev)
        where = m.loc(ci.module, rev)
        if cf is None or cr is None:
            c.violation("R03-OPERATORS", cname, "delegates-to-_binary_op", where,
                        "the operator does not return exactly one self._binary_op(...) call")
            continue
        other_f, other_r = fwd.args.args[1].arg, rev.args.args[1].arg
        af = [ast.unparse(a) for a in cf.args]
        ar = [ast.unparse(a) for a in cr.args]
        c.check(af == [f"operator.{opname}", other_f] and ar == [f"operator.{opname}", other_r],
                "R03-OPERATORS", cname, f"operator.{opname}-on-the-other-operand", where,
                f"__{name}__ passes {af}, __r{name}__ passes {ar}: both must apply "
                f"operator.{opname} to their `other` argument")
        kf = {k.arg: ast.unparse(k.value) for k in cf.keywords}
        kr = {k.arg: ast.unparse(k.value) for k in cr.keywords}
        c.check(kr.get("reverse") == "True" and kf.get("reverse", "False") == "False",
                "R03-OPERATORS", cname, "only-the-reflected-one-reverses", where,
                f"reverse= is {kf.get('reverse')} in __{name}__ and {kr.get('reverse')} in "
                f"__r{name}__: operands would be applied in the wrong order")
        kf.pop("reverse", None)
        kr.pop("reverse", None)
        c.check(kf == kr, "R03-OPERATORS", cname, "same-options", where,
                f"__{name}__ passes {kf} but __r{name}__ passes {kr}: the result dtype / "
                "expression of `scalar <op> array` differs from `array <op> scalar` in "
                "more than the operand order")
        # whatever else the two do before delegating (argument checks) agrees
        # after exchanging the operand order
        def pre(fd, other):
            out = []
            for st in fd.body:
                if isinstance(st, ast.Return) and st.value is not None \
                        and isinstance(st.value, ast.Call) \
                        and ast.unparse(st.value.func) == "self._binary_op":
                    continue
                if isinstance(st, ast.Expr) and isinstance(st.value, ast.Constant):
                    continue
                out.append(ast.unparse(st).replace(other, "<other>"))
            return out
        pf = pre(fwd, other_f)
        pr = [s_.replace("(<other>, self)", "(self, <other>)") for s_ in pre(rev, other_r)]
        c.check(pf == pr, "R03-OPERATORS", cname, "same-argument-checks", where,
                "the forward and the reflected operator validate their arguments "
                "differently")
    if n < 5:
        raise AnalysisError(f"only {n} operator pairs found (floor 5)")
    # _binary_op: finite abstract evaluation over reverse in {True, False}: the
    # first two arguments that reach broadcast_binary_op are (other, self) when
    # reverse is set and (self, other) otherwise; everything else is the same
    bo = ci.methods["_binary_op"]
    where = m.loc(ci.module, bo)
    other = bo.args.args[2].arg

    def run(stmts, env, rev, out):
        """tiny evaluator: Name -> symbol through (tuple) assignments, branching only
        on `reverse` / `not reverse`; records the calls of broadcast_binary_op"""
        def val(e):
            if isinstance(e, ast.Name):
                return env.get(e.id, e.id)
            if isinstance(e, ast.IfExp) and ast.unparse(e.test) in ("reverse", "not reverse"):
                t = rev if ast.unparse(e.test) == "reverse" else not rev
                return val(e.body if t else e.orelse)
            if isinstance(e, ast.Tuple):
                return tuple(val(x) for x in e.elts)
            return ast.unparse(e)
        for st in stmts:
            for x in ast.walk(st) if not isinstance(st, (ast.If, ast.For, ast.While)) else []:
                if isinstance(x, ast.Call) and ast.unparse(x.func).endswith("broadcast_binary_op"):
                    out.append((tuple(val(a) for a in x.args[:2]),
                                [ast.unparse(a) for a in x.args[2:]],
                                sorted((k.arg, ast.unparse(k.value)) for k in x.keywords)))
            if isinstance(st, (ast.Assign, ast.AnnAssign)) and st.value is not None:
                tg = st.targets[0] if isinstance(st, ast.Assign) else st.target
                v = val(st.value)
                if isinstance(tg, ast.Name):
                    env[tg.id] = v
                elif isinstance(tg, ast.Tuple) and isinstance(v, tuple) \
                        and len(v) == len(tg.elts):
                    for t, vv in zip(tg.elts, v):
                        if isinstance(t, ast.Name):
                            env[t.id] = vv
            elif isinstance(st, ast.If):
                t = ast.unparse(st.test)
                if t in ("reverse", "not reverse"):
                    take = rev if t == "reverse" else not rev
                    run(st.body if take else st.orelse, env, rev, out)
                else:
                    # not about `reverse`: both arms must agree on what matters here
                    run(st.body, dict(env), rev, out)
                    run(st.orelse, dict(env), rev, out)
    res = {}
    for rev in (True, False):
        out = []
        run(bo.body, {}, rev, out)
        res[rev] = out
    ok = all(len(res[r]) >= 1 and len({repr(x) for x in res[r]}) == 1 for r in res) \
        and res[True][0][0] == (other, "self") and res[False][0][0] == ("self", other) \
        and res[True][0][1:] == res[False][0][1:]
    calls = [x for x in ast.walk(bo) if isinstance(x, ast.Call)
             and ast.unparse(x.func).endswith("broadcast_binary_op")]
    c.check(ok, "R03-OPERATORS", "Array._binary_op", "reverse-swaps-exactly-the-operands",
            where,
            f"with reverse set broadcast_binary_op gets {res[True][0][0] if res[True] else None}, "
            f"without {res[False][0][0] if res[False] else None} (expected ({other}, self) and "
            f"(self, {other})), or the remaining arguments differ between the two cases")
    # every option of _binary_op reaches broadcast_binary_op
    for a in bo.args.args[3:]:
        if a.arg == "reverse":
            continue
        c.check(all(any(ast.unparse(v) == a.arg for v in
                        list(x.args) + [k.value for k in x.keywords]) for x in calls),
                "R03-OPERATORS", "Array._binary_op", f"passes-on:{a.arg}", where,
                f"option {a.arg} is accepted but not handed to broadcast_binary_op")


def _clamp_block(fd, var):
    """the `if <var> is None: ... else: ...` statement normalising ``var``"""
    for st in fd.body:
        if isinstance(st, ast.If) and ast.unparse(st.test) == f"{var} is None":
            return st
    return None


def r_slice(c):
    """slice normalisation: start and stop are clamped by sibling blocks"""
    m = c.model
    fd = m.func("pytato.utils._normalize_slice")
    where = m.loc("pytato.utils", fd)
    fd = m.inlined(fd)      # a clamping helper shared by start and stop is seen through
    from pta.pat import find
    un = find(fd, "$a, $b, $c = $s.start, $s.stop, $s.step")
    if len(un) != 1:
        raise AnalysisError("anchor vanished: start/stop/step unpacking in _normalize_slice")
    sv, tv, pv = un[0]["$a"], un[0]["$b"], un[0]["$c"]
    L = fd.args.args[1].arg
    bs, bt = _clamp_block(fd, sv), _clamp_block(fd, tv)
    if bs is None or bt is None:
        raise AnalysisError("anchor vanished: `if start is None` / `if stop is None` blocks")
    import re

    def norm(block, var):
        s_ = ast.unparse(block)
        s_ = re.sub(rf"\bdefault_{var}\b|\b{var}_default\b", "<default>", s_)
        return re.sub(rf"\b{var}\b", "<v>", s_)
    ns, nt = norm(bs, sv), norm(bt, tv)
    # defaults: whatever names they have, they are the values assigned under
    # step > 0 / else; compare the blocks with the default's name abstracted
    ds = [ast.unparse(x.value) for x in ast.walk(bs) if isinstance(x, ast.Assign)
          and isinstance(x.value, ast.Name) and x in bs.body]
    dt = [ast.unparse(x.value) for x in ast.walk(bt) if isinstance(x, ast.Assign)
          and isinstance(x.value, ast.Name) and x in bt.body]
    for d in ds:
        ns = ns.replace(d, "<default>")
    for d in dt:
        nt = nt.replace(d, "<default>")
    c.check(ns == nt, "R03-SLICE", "utils._normalize_slice", "start-and-stop-clamped-alike",
            where,
            "start and stop are normalised by different code although Python/NumPy clamp "
            "both the same way (slice.indices): e.g. a different boundary for one of them "
            f"gives a wrong length for negative steps. start: `{ns[:70]}...` stop: "
            f"`{nt[:70]}...`")
    # the common shape: in range [-L, L) -> v % L; >= L -> L or L-1; below -> 0 or -1
    for var, blk in ((sv, bs), (tv, bt)):
        inner = [x for x in ast.walk(blk) if isinstance(x, ast.If)
                 and isinstance(x.test, ast.Compare) and len(x.test.ops) == 2]
        ok = False
        for i in inner:
            t = i.test
            if ast.unparse(t.left) == f"-{L}" and ast.unparse(t.comparators[0]) == var \
                    and ast.unparse(t.comparators[1]) == L \
                    and isinstance(t.ops[0], ast.LtE) and isinstance(t.ops[1], ast.Lt):
                body = [ast.unparse(s_) for s_ in i.body]
                hi = i.orelse[0] if len(i.orelse) == 1 and isinstance(i.orelse[0], ast.If) \
                    else None
                ok = body == [f"{var} = {var} % {L}"] and hi is not None \
                    and ast.unparse(hi.test) == f"{var} >= {L}" \
                    and [ast.unparse(s_) for s_ in hi.body] == [
                        f"{var} = {L} if {pv} > 0 else {L} - 1"] \
                    and [ast.unparse(s_) for s_ in hi.orelse] == [
                        f"{var} = 0 if {pv} > 0 else -1"]
        c.check(ok, "R03-SLICE", "utils._normalize_slice", f"{'start' if var == sv else 'stop'}:"
                "clamped-like-slice.indices", where,
                f"`{var}` is not normalised as: -L <= v < L -> v % L; v >= L -> L (L-1 for a "
                "negative step); v < -L -> 0 (-1 for a negative step), which is what "
                "Python's slice.indices does")
    # defaults by sign of the step
    d = find(fd, f"""
if {pv} > 0:
    $ds = 0
    $dt = {L}
else:
    $ds = {L} - 1
    $dt = -1
""")
    c.check(len(d) == 1, "R03-SLICE", "utils._normalize_slice", "defaults-by-step-sign", where,
            "the defaults of an omitted start/stop are not (0, L) for a positive and "
            "(L-1, -1) for a negative step")
    c.check(any(isinstance(i, ast.If) and ast.unparse(i.test) == f"{pv} == 0"
                and any(isinstance(s_, ast.Raise) for s_ in i.body) for i in fd.body),
            "R03-SLICE", "utils._normalize_slice", "zero-step-rejected", where,
            "a zero step is not rejected when the slice is built")


SHAPE_MODULES = ["pytato.utils", "pytato.array", "pytato.reductions", "pytato.cmath",
                 "pytato.pad"]


def r_fold(c):
    """accumulating loops in shape inference read the accumulator, not its stale
    initial value; repeated list.insert runs over ascending positions"""
    m = c.model
    n_fold = n_ins = 0
    for mi, fd in m.all_functions(modules=[x for x in SHAPE_MODULES if x in m.modules]):
        qn = m.qualname(fd).replace("pytato.", "", 1)
        body = fd.body
        for i, st in enumerate(body):
            # acc = <init>   (init is a subscript/attribute expression, e.g. xs[0])
            if not (isinstance(st, (ast.Assign, ast.AnnAssign)) and st.value is not None):
                continue
            tg = st.targets[0] if isinstance(st, ast.Assign) else st.target
            if not isinstance(tg, ast.Name) or not isinstance(st.value, ast.Subscript):
                continue
            acc, init = tg.id, ast.unparse(st.value)
            for loop in body[i + 1:]:
                if not isinstance(loop, ast.For):
                    continue
                reassigned = any(isinstance(x, ast.Assign) and any(
                    isinstance(t, ast.Name) and t.id == acc for t in x.targets)
                    for x in ast.walk(loop))
                if not reassigned:
                    continue
                n_fold += 1
                stale = [x for b in loop.body for x in ast.walk(b)
                         if isinstance(x, ast.Subscript) and ast.unparse(x) == init]
                c.check(not stale, "R03-FOLD", qn, f"{acc}:loop-reads-the-accumulator",
                        m.loc(mi, loop),
                        f"`{acc}` starts as `{init}` and is updated in the loop, but the "
                        f"loop body still reads `{init}`: after the first update the "
                        "decision is taken on a stale value (e.g. broadcasting three "
                        "operands accepts incompatible lengths)")
        # repeated insert: `for p in <positions>: L.insert(p, v)`
        for loop in ast.walk(fd):
            if not (isinstance(loop, ast.For) and isinstance(loop.target, ast.Name)):
                continue
            ins = [x for b in loop.body for x in ast.walk(b) if isinstance(x, ast.Call)
                   and isinstance(x.func, ast.Attribute) and x.func.attr == "insert"
                   and x.args and isinstance(x.args[0], ast.Name)
                   and x.args[0].id == loop.target.id]
            if not ins:
                continue
            n_ins += 1
            it = loop.iter
            asc = isinstance(it, ast.Call) and isinstance(it.func, ast.Name) and (
                it.func.id == "sorted" and not any(
                    k.arg == "reverse" and ast.unparse(k.value) != "False" for k in it.keywords)
                or it.func.id == "range")
            c.check(asc, "R03-FOLD", qn, f"{loop.target.id}:inserts-in-ascending-order",
                    m.loc(mi, loop),
                    f"`{m.frag(ins[0], 40)}` is repeated for the positions "
                    f"`{m.frag(it, 40)}`, which are not visited in ascending order: an "
                    "insertion shifts the later positions, so the new axes end up in the "
                    "wrong places (np.expand_dims(a, (1, 0)))")
    # working copies: after `work = dict(param)` (list / set likewise) has been
    # modified, the parameter is a stale snapshot: reading it (or re-binding it)
    # later in the function takes decisions on, or writes into, the wrong object
    n_copy = 0
    for mi, fd in m.all_functions(modules=[x for x in SHAPE_MODULES if x in m.modules]):
        if m.enclosing_function(fd) is not None:
            continue
        params = {a.arg for a in fd.args.args + fd.args.kwonlyargs}
        for st in fd.body:
            if not (isinstance(st, (ast.Assign, ast.AnnAssign)) and st.value is not None):
                continue
            v = st.value
            tg = st.targets[0] if isinstance(st, ast.Assign) else st.target
            if not (isinstance(tg, ast.Name) and isinstance(v, ast.Call)
                    and isinstance(v.func, ast.Name) and v.func.id in ("dict", "list", "set")
                    and len(v.args) == 1 and isinstance(v.args[0], ast.Name)
                    and v.args[0].id in params):
                continue
            work, orig = tg.id, v.args[0].id
            modified = any(
                (isinstance(x, ast.Subscript) and isinstance(x.ctx, ast.Store)
                 and ast.unparse(x.value) == work)
                or (isinstance(x, ast.Call) and isinstance(x.func, ast.Attribute)
                    and ast.unparse(x.func.value) == work
                    and x.func.attr in ("add", "append", "update", "setdefault", "pop"))
                for x in ast.walk(fd))
            if not modified:
                continue
            n_copy += 1
            # re-binding the parameter name FROM the working copy at the end
            # (`p = constantdict(p_dict)`) ends the staleness
            rebinds = [a for a in ast.walk(fd) if isinstance(a, ast.Assign)
                       and any(isinstance(t, ast.Name) and t.id == orig for t in a.targets)
                       and a.lineno > st.lineno
                       and any(isinstance(y, ast.Name) and y.id == work
                               for y in ast.walk(a.value))
                       and not any(isinstance(y, ast.Name) and y.id == orig
                                   for y in ast.walk(a.value))]
            fresh_from = min((a.lineno for a in rebinds), default=10**9)
            later = [x for x in ast.walk(fd) if isinstance(x, ast.Name) and x.id == orig
                     and st.lineno < getattr(x, "lineno", 0) < fresh_from]
            qn = m.qualname(fd).replace("pytato.", "", 1)
            c.check(not later, "R03-FOLD", qn, f"{orig}:not-used-after-its-working-copy",
                    m.loc(mi, later[0] if later else st),
                    f"`{work} = {v.func.id}({orig})` is a working copy that the function "
                    f"modifies, but `{orig}` itself is still "
                    f"{'assigned' if later and isinstance(later[0].ctx, ast.Store) else 'read'} "
                    "afterwards: the original no longer reflects what was recorded in the "
                    "copy (e.g. two new reduction axes get the same number)")
    if n_fold < 1 or n_ins < 1 or n_copy < 2:
        raise AnalysisError(f"fold/insert/copy anchors vanished (folds={n_fold}, "
                            f"inserts={n_ins}, working copies={n_copy})")


AXIS_PARAMS = ("axis", "axes", "iaxis")


def _validates(m, mi, fd, param, depth=0, seen=None):
    """does ``fd`` reject bad values of ``param`` when it is called?  A raising
    `if` whose test depends on the parameter (through assignments, loops and
    comprehensions), or handing the value on to a repository function that does."""
    seen = seen if seen is not None else set()
    if (id(fd), param) in seen or depth > 4:
        return None
    seen.add((id(fd), param))
    taint = {param}
    changed = True
    while changed:
        changed = False
        for n in ast.walk(fd):
            tgts, srcs = [], []
            if isinstance(n, ast.Assign):
                tgts, srcs = n.targets, [n.value]
            elif isinstance(n, ast.AnnAssign) and n.value is not None:
                tgts, srcs = [n.target], [n.value]
            elif isinstance(n, (ast.For, ast.comprehension)):
                tgts, srcs = [n.target], [n.iter]
            if any(isinstance(x, ast.Name) and x.id in taint for s_ in srcs for x in ast.walk(s_)):
                for t in tgts:
                    for x in ast.walk(t):
                        if isinstance(x, ast.Name) and x.id not in taint:
                            taint.add(x.id)
                            changed = True
    for n in ast.walk(fd):
        if isinstance(n, ast.If) and any(isinstance(s_, ast.Raise) for s_ in n.body) \
                and any(isinstance(x, ast.Name) and x.id in taint for x in ast.walk(n.test)) \
                and ast.unparse(n.test) != f"{param} is None":
            return f"`if {m.frag(n.test, 50)}: raise` in {fd.name}"
    # delegation: a call that receives a tainted value
    for call in ast.walk(fd):
        if not isinstance(call, ast.Call):
            continue
        args = [(i, a) for i, a in enumerate(call.args)] + [(k.arg, k.value) for k in call.keywords]
        hit = [(pos, a) for pos, a in args if any(
            isinstance(x, ast.Name) and x.id in taint for x in ast.walk(a))]
        if not hit:
            continue
        fn = ast.unparse(call.func)
        cands = []
        for q in (fn, fn.split(".")[-1]):
            # `pt.transpose` / `utils.f` / local imports: try the name as written,
            # its last component in this module, and in the package's re-exports
            for r in (m.resolve_name(mi.name, q), m.resolve_name("pytato", q.split(".")[-1])):
                if r and m.has_func(r) and not cands:
                    cands.append((m.module(r.rpartition(".")[0]), m.func(r)))
        for cmi, cfd in cands[:1]:
            cparams = [a.arg for a in cfd.args.args]
            for pos, _a in hit:
                cp = cparams[pos] if isinstance(pos, int) and pos < len(cparams) else pos
                if isinstance(cp, str) and cp in cparams:
                    why = _validates(m, cmi, cfd, cp, depth + 1, seen)
                    if why:
                        return f"{fn}(...): {why}"
    return None


def r_axis_total(c):
    """every public function that takes an axis argument rejects bad axes itself
    or hands them to a repository function that does"""
    m = c.model
    n = 0
    for mod in ("pytato.array", "pytato.reductions"):
        mi = m.module(mod)
        cands = list(mi.functions.items())
        if mod == "pytato.array":
            cands += [(f"Array.{k}", v) for k, v in m.cls("pytato.array.Array").methods.items()]
        for name, fd in cands:
            if name.split(".")[-1].startswith("_") and not name.endswith("_normalize_reduction_axes"):
                continue
            for a in fd.args.args + fd.args.kwonlyargs:
                if a.arg not in AXIS_PARAMS:
                    continue
                n += 1
                why = _validates(m, mi, fd, a.arg)
                c.check(why is not None, "R03-AXIS", f"{mod.replace('pytato.', '')}.{name}",
                        f"{a.arg}:validated-when-built", m.loc(mi, fd),
                        f"no raising test depends on `{a.arg}` in {name} or in the repository "
                        "functions it hands the value to: an axis NumPy rejects is accepted "
                        "when the expression is built", ok_detail=why)
    if n < 8:
        raise AnalysisError(f"only {n} axis-taking public functions found (floor 8)")


# ---------------------------------------------------------------------------
# broadcasting as a fold: finite abstract evaluation of the decision tree

EQ_FUNCS = ("are_shape_components_equal",)


def _eq_atom(n):
    """frozenset of the two operand texts of an are_shape_components_equal call"""
    if isinstance(n, ast.Call) and ast.unparse(n.func).split(".")[-1] in EQ_FUNCS \
            and len(n.args) == 2 and not n.keywords:
        return frozenset(ast.unparse(a) for a in n.args)
    return None


def _tree_actions(stmts, val, acc_writes, elem):
    """possible outcomes {'KEEP','TAKE','RAISE','WRONG'} of executing ``stmts`` when
    the atoms have the truth values ``val`` (atoms not in val are free)"""
    def test(t):
        a = _eq_atom(t)
        if a is not None:
            return {val[a]} if a in val else {True, False}
        if isinstance(t, ast.UnaryOp) and isinstance(t.op, ast.Not):
            return {not x for x in test(t.operand)}
        if isinstance(t, ast.BoolOp):
            vals = [test(v) for v in t.values]
            out = set()
            import itertools
            for combo in itertools.product(*vals):
                out.add(all(combo) if isinstance(t.op, ast.And) else any(combo))
            return out
        return {True, False}

    def block(body, state):
        # state: 'KEEP' or 'TAKE' or 'WRONG' so far; returns set of final outcomes
        outs = {state}
        for st in body:
            nxt = set()
            for s_ in outs:
                if s_ == "RAISE":
                    nxt.add(s_)
                    continue
                if isinstance(st, ast.If):
                    for tv in test(st.test):
                        nxt |= block(st.body if tv else st.orelse, s_)
                elif isinstance(st, ast.Raise):
                    nxt.add("RAISE")
                elif isinstance(st, (ast.Assign, ast.AnnAssign)) and st.value is not None:
                    tg = ast.unparse(st.targets[0] if isinstance(st, ast.Assign) else st.target)
                    if tg in acc_writes:
                        nxt.add("TAKE" if ast.unparse(st.value) == elem else "WRONG")
                    else:
                        nxt.add(s_)
                else:
                    nxt.add(s_)
            outs = nxt
        return outs
    return block(stmts, "KEEP")


def broadcast_folds(c, rule, modules):
    """Every decision tree that broadcasts a new axis length E into a remembered
    length A (tests are are_shape_components_equal(E, A), (E, 1), (A, 1)) is
    evaluated on the four consistent abstract cases and must do what NumPy
    broadcasting does: equal -> keep; E is 1 -> keep; A is 1 -> take E;
    otherwise -> raise."""
    m = c.model
    n = 0
    for mi, fd in m.all_functions(modules=[x for x in modules if x in m.modules]):
        from pta.order import _own_nodes
        cands = [i for i in _own_nodes(fd) if isinstance(i, ast.If) and any(
            _eq_atom(x) is not None for x in ast.walk(i.test))]
        roots = [i for i in cands if not any(
            o is not i and any(i is x for x in ast.walk(o)) for o in cands)]
        for root in roots:
            atoms = {a for x in ast.walk(root) for a in [_eq_atom(x)] if a is not None}
            ones = {next(iter(a - {"1"})) for a in atoms if "1" in a and len(a) == 2}
            pairs = [a for a in atoms if "1" not in a and len(a) == 2]
            if len(ones) < 1 or not pairs:
                continue        # not a broadcast decision (a plain equality check)
            if not any(isinstance(x, ast.Raise) for x in ast.walk(root)):
                continue
            n += 1
            qn = m.qualname(fd).replace("pytato.", "", 1)
            where = m.loc(mi, root)
            pair = sorted(pairs[0])
            # the remembered length: re-assigned in the tree, or read from a
            # container that the function also writes
            def is_acc(nm):
                for x in ast.walk(root):
                    if isinstance(x, ast.Assign) and ast.unparse(x.targets[0]) == nm:
                        return {nm}
                for a in ast.walk(fd):
                    if isinstance(a, ast.Assign) and ast.unparse(a.targets[0]) == nm \
                            and isinstance(a.value, ast.Subscript):
                        src = ast.unparse(a.value)
                        if any(isinstance(w, ast.Assign) and ast.unparse(w.targets[0]) == src
                               for w in ast.walk(fd)):
                            return {nm, src}
                return None
            accs = [(nm, is_acc(nm)) for nm in pair]
            accs = [(nm, w) for nm, w in accs if w]
            if not accs and len(ones & set(pair)) == 1:
                # one-way broadcast of E into a GIVEN target length T (broadcast_to):
                # equal -> accept; E is 1 -> accept; otherwise -> raise
                E = next(iter(ones & set(pair)))
                T = [x for x in pair if x != E][0]
                eqET, E1 = frozenset({E, T}), frozenset({E, "1"})
                for cname, val, want in (
                        ("equal", {eqET: True}, {"KEEP"}),
                        ("operand length is 1", {eqET: False, E1: True}, {"KEEP"}),
                        ("different and not 1", {eqET: False, E1: False}, {"RAISE"})):
                    got = _tree_actions([root], val, set(), E)
                    c.check(got <= want and bool(got), rule, qn,
                            f"one-way-broadcast:{cname}", where,
                            f"case `{cname}` (operand length `{E}`, target length `{T}`): "
                            f"the code can {sorted(got)} but broadcasting into "
                            f"a given shape requires {sorted(want)} (KEEP = accept)")
                continue
            if len(accs) != 1:
                c.violation(rule, qn, f"broadcast-fold:{'/'.join(pair)}", where,
                            f"the lengths compared ({pair[0]}, {pair[1]}) do not consist of "
                            "one new length and one remembered (accumulated) length: the "
                            "decision is not taken against what was broadcast so far "
                            "(three operands of lengths 3, 1, 4 are accepted)")
                continue
            A, writes = accs[0]
            E = [x for x in pair if x != A][0]
            eqEA, E1, A1 = frozenset({E, A}), frozenset({E, "1"}), frozenset({A, "1"})
            cases = [
                ("equal", {eqEA: True}, {"KEEP", "TAKE"}),
                ("new length is 1", {eqEA: False, E1: True, A1: False}, {"KEEP"}),
                ("remembered length is 1", {eqEA: False, E1: False, A1: True}, {"TAKE"}),
                ("different, neither is 1", {eqEA: False, E1: False, A1: False}, {"RAISE"}),
            ]
            for cname, val, want in cases:
                # for `equal` leave the two comparisons with 1 free
                got = _tree_actions([root], val, writes, E)
                c.check(got <= want and bool(got), rule, qn,
                        f"broadcast-fold:{cname}", where,
                        f"case `{cname}` (new length `{E}`, remembered length `{A}`): "
                        f"the code can {sorted(got)} but broadcasting requires "
                        f"{sorted(want)} (KEEP = leave `{A}`, TAKE = `{A}` becomes `{E}`)")
    return n


def r_broadcast(c):
    n = broadcast_folds(c, "R03-FOLD", SHAPE_MODULES)
    if n < 2:
        raise AnalysisError(f"only {n} broadcast decision trees found (floor 2)")


MEMO_DECOS = ("lru_cache", "cache", "memoize", "memoize_method", "memoize_on_first_arg",
              "memoize_in")
NUMERIC_ANN = ("int", "float", "complex", "bool", "Scalar", "Any", "DTypeLike", "Number",
               "object", "Integer", "ScalarExpression", "ArrayOrScalar")
MEMO_REVIEWED = {
    "loopy.LoopyCall._to_pytato":
        "only ever applied to loopy shape tuples (integers and affine expressions of size "
        "parameters): no equal-valued scalar of another type can occur as an argument",
}


def r_memo(c):
    """memoisation keys: Python compares 1 == 1.0 == True (and hashes them alike),
    so a function memoised on a value that may be a Python/NumPy scalar returns
    the result computed for an equal scalar of another type -- result dtypes then
    depend on what was computed earlier in the process"""
    m = c.model
    import re
    n = 0
    for mi, fd in m.all_functions():
        decos = [(d, ast.unparse(d)) for d in fd.decorator_list]
        memo = [(d, t) for d, t in decos
                if t.split("(")[0].split(".")[-1] in MEMO_DECOS]
        if not memo:
            continue
        n += 1
        qn = m.qualname(fd).replace("pytato.", "", 1)
        d, t = memo[0]
        typed = isinstance(d, ast.Call) and any(
            k.arg == "typed" and ast.unparse(k.value) == "True" for k in d.keywords)
        params = [a for a in fd.args.args + fd.args.kwonlyargs if a.arg not in ("self", "cls")]
        star = [a for a in (fd.args.vararg, fd.args.kwarg) if a is not None]
        if t.split("(")[0].split(".")[-1] == "memoize_on_first_arg":
            params = params[1:]
        risky = [a.arg for a in params + star if a.annotation is None or any(
            re.search(rf"\b{w}\b", ast.unparse(a.annotation)) for w in NUMERIC_ANN)]
        where = m.loc(mi, fd)
        if not risky or typed:
            c.ok("R03-MEMO", qn, "memo-key-distinguishes-scalar-types", where,
                 "no scalar-typed argument" if not risky else "typed=True")
        elif qn in MEMO_REVIEWED:
            c.exempt("R03-MEMO", qn, "memo-key-distinguishes-scalar-types", where,
                     MEMO_REVIEWED[qn])
        else:
            c.violation("R03-MEMO", qn, "memo-key-distinguishes-scalar-types", where,
                        f"`@{t}` memoises on {risky}, which can be Python/NumPy scalars: "
                        "1, 1.0, True and 1+0j are one cache key, so the result (e.g. a "
                        "promoted dtype) computed for one of them is returned for the others")
    if n < 5:
        raise AnalysisError(f"only {n} memoised functions found (floor 5)")


def r_scalar_operands_keep_their_type(c):
    """NumPy promotes by the TYPE of a scalar operand: np.float64(2) widens a float32
    array, the Python float 2.0 does not (NEP 50).  The functions through which an
    operand of a binary operation reaches dtype inference hand it on as it came: no
    `.item()` / `.tolist()` and no int()/float()/complex()/bool() of the operand.  (A
    hazard rule: the expected number of such conversions is zero.)"""
    m = c.model
    sites = [("pytato.array.Array", "_binary_op"), ("pytato.array.Array", "_unary_op")]
    fns = []
    for cls, mn in sites:
        r = m.resolve_method(cls, mn)
        if r is not None:
            fns.append(r[1])
    for qn in ("pytato.utils.broadcast_binary_op",
               "pytato.utils.update_bindings_and_get_broadcasted_expr",
               "pytato.utils.extract_dtypes"):
        try:
            fns.append(m.func(qn))
        except Exception:     # a helper that does not exist in this tree
            pass
    if len(fns) < 3:
        raise AnalysisError("anchor vanished: the functions an operand passes through "
                            "before dtype inference (_binary_op, broadcast_binary_op, ...)")
    for fd in fns:
        # (operands, not flags: parameters annotated bool / str or with a constant
        # default are options of the call)
        allp = fd.args.posonlyargs + fd.args.args
        defaults = dict(zip([a.arg for a in allp][len(allp) - len(fd.args.defaults):],
                            fd.args.defaults))
        defaults.update({a.arg: d for a, d in zip(fd.args.kwonlyargs, fd.args.kw_defaults)
                         if d is not None})
        params = {a.arg for a in allp + fd.args.kwonlyargs
                  if not (a.annotation is not None
                          and ast.unparse(a.annotation) in ("bool", "str", "'bool'", "'str'"))
                  and not isinstance(defaults.get(a.arg), ast.Constant)} - {"self", "cls"}
        mi = m.module_of(fd)
        qn = m.qualname(fd).replace("pytato.", "", 1)
        bad = []
        for x in ast.walk(fd):
            if isinstance(x, ast.Call) and isinstance(x.func, ast.Attribute) \
                    and x.func.attr in ("item", "tolist") and isinstance(x.func.value, ast.Name) \
                    and x.func.value.id in params:
                bad.append(x)
            elif isinstance(x, ast.Call) and isinstance(x.func, ast.Name) \
                    and x.func.id in ("int", "float", "complex", "bool") and len(x.args) == 1 \
                    and isinstance(x.args[0], ast.Name) and x.args[0].id in params:
                bad.append(x)
        c.check(not bad, "R03-OPERATORS", qn, "scalar-operands-keep-their-type",
                m.loc(mi, bad[0] if bad else fd),
                f"`{m.frag(bad[0], 50) if bad else ''}` turns a NumPy scalar operand into a "
                "Python scalar before the result dtype is inferred: float32_array * "
                "np.float64(2) is then inferred float32 where NumPy gives float64")


def r_min_max_siblings(c):
    """maximum and minimum are one function up to the comparison (greater / less):
    the same dtype decision, the same NaN test, the same typed NaN.  Compared on the
    normal form (helpers inlined, locals propagated), the comparison abstracted."""
    m = c.model
    fns = {}
    for nm in ("maximum", "minimum"):
        fd = m.normal(m.func("pytato.array." + nm))
        body = [st for st in fd.body
                if not (isinstance(st, ast.Expr) and isinstance(st.value, ast.Constant))]

        class Abs(ast.NodeTransformer):
            def visit_Name(self, x):
                if x.id in ("greater", "less", "greater_equal", "less_equal"):
                    return ast.Name(id="<cmp:" + ("g" if x.id.startswith("g") else "l")
                                    + ("e" if x.id.endswith("equal") else "") + ">", ctx=x.ctx)
                return x
        import copy
        txt = "\n".join(ast.unparse(Abs().visit(copy.deepcopy(st))) for st in body)
        fns[nm] = txt
    a = fns["maximum"].replace("<cmp:g>", "<cmp>").replace("<cmp:ge>", "<cmpe>")
    b = fns["minimum"].replace("<cmp:l>", "<cmp>").replace("<cmp:le>", "<cmpe>")
    fd = m.func("pytato.array.minimum")
    diff = ""
    if a != b:
        la, lb = a.splitlines(), b.splitlines()
        for x, y in zip(la, lb):
            if x != y:
                diff = f"maximum: `{x.strip()[:90]}` / minimum: `{y.strip()[:90]}`"
                break
        else:
            diff = "different number of statements"
    c.check(a == b, "R03-OPERATORS", "array.maximum/minimum", "same-code-up-to-the-comparison",
            m.loc(m.module_of(fd), fd),
            "maximum and minimum differ in more than the comparison they select by "
            f"({diff}): one of them decides the result dtype or propagates NaN differently "
            "from the other (and from NumPy, which treats the two alike)")


SPEC = Spec(
    prop="C03",
    rules=[r_eager, r_axis, r_axis_total, r_splice, r_operators, r_slice, r_fold, r_broadcast, r_memo,
           r_scalar_operands_keep_their_type, r_min_max_siblings],
    floors={"R03-EAGER": 54, "R03-AXIS": 15, "R03-SPLICE": 2, "R03-OPERATORS": 30,
            "R03-SLICE": 3, "R03-FOLD": 10, "R03-MEMO": 7},
    explanation=(
        "Decides structural clauses; the agreement of inferred shapes/dtypes with NumPy's "
        "value-level behaviour is NOT decided. R03-EAGER: for every concrete array "
        "kind shape, dtype, axes and tags resolve (through the MRO, TYPE_CHECKING "
        "stubs excluded) to a dataclass field or a run-time property, and the call "
        "graph reachable from those properties (it does reach the affine shape "
        "comparison, de-duplication and the input gatherer) contains no function "
        "of the code generators, the executor or the partitioner (who-may-call). "
        "R03-AXIS: for roll/stack/concatenate the interval accepted by the "
        "constructor's guard (parsed from `if not (L <= axis < U): raise`) is "
        "compared with what the node's own shape property / lowering rule can "
        "index: a subscript by the axis field requires axis <= ndim-1, an insert "
        "position does not; the parameter-field link is read off the constructor "
        "call; reductions, expand_dims and transpose validate their axes. "
        "R03-SPLICE: every "
        "sequence splice X[:i] ... X[i+1:] in the package has i proven non-negative "
        "(result of .index(), index of range/enumerate, raising guard with lower "
        "bound 0, or normalisation i = i % n). R03-OPERATORS (sibling agreement): "
        "every forward/reflected operator pair of Array applies the same operator "
        "function with the same options, only the reflected one reverses, argument "
        "checks agree after exchanging the operands; _binary_op's two "
        "broadcast_binary_op calls differ exactly in the operand order and hand on "
        "every option. R03-SLICE (sibling agreement + slice.indices): start and "
        "stop of a slice are clamped by identical code: -L <= v < L -> v % L, "
        "v >= L -> L (L-1 for a negative step), below -> 0 (-1); defaults by sign "
        "of the step; zero step rejected. R03-FOLD: an accumulating loop in shape "
        "inference does not read the stale initial value of its accumulator; "
        "repeated list.insert runs over ascending positions. R03-AXIS also "
        "enumerates every public function with an axis parameter: a raising test "
        "depends on it there or in a repository function the value is handed to. "
        "R03-MEMO: no function of the package is memoised (lru_cache, "
        "memoize_method, ...) on an argument that may be a Python/NumPy scalar "
        "without typed=True (1 == 1.0 == True are one cache key). R03-FOLD also "
        "evaluates every broadcasting decision tree (tests are_shape_components_equal "
        "(E, A), (E, 1), (A, 1)) on its four consistent abstract cases: equal -> keep, "
        "new length 1 -> keep, remembered length 1 -> take the new one, otherwise "
        "raise; one-way broadcasts into a given shape likewise. "
        "R03-FOLD also: after a working copy of a parameter (dict(p), list(p)) was modified, the parameter is neither read nor re-bound (except from the copy). R03-OPERATORS also: the functions an operand passes through before dtype inference never convert it with .item()/.tolist()/int()/float()/complex()/bool() (NumPy promotes by the scalar's type); maximum and minimum are the same code up to the comparison (normal forms compared)."),
    not_decided=(
        "dtype promotion, broadcast shapes, slice lengths and which exception type "
        "NumPy would raise: a differential statement against an external library's "
        "value-level behaviour for which no static oracle exists."),
)
