"""Finite abstract evaluation of boolean predicates (no solver).

``truth_table(expr, atoms, domain)`` evaluates the AST of a predicate for every
point of a finite domain.  Atoms are recognised by ``atom_of(node)`` which maps
an AST node to an atom name (or None); atoms not in the declared domain become
*free booleans* that are enumerated too, so an unforeseen conjunct can only
widen what has to be justified, never hide a point.
"""
from __future__ import annotations

import ast
import itertools

from pta.model import AnalysisError


class Unknown(AnalysisError):
    pass


def evaluate(n, env, atom_of, free):
    """three-valued? no: everything is decided because unknown sub-expressions
    become free atoms recorded in ``free`` (name -> source)."""
    if isinstance(n, ast.BoolOp):
        vals = [evaluate(v, env, atom_of, free) for v in n.values]
        return all(vals) if isinstance(n.op, ast.And) else any(vals)
    if isinstance(n, ast.UnaryOp) and isinstance(n.op, ast.Not):
        return not evaluate(n.operand, env, atom_of, free)
    if isinstance(n, ast.IfExp):
        return evaluate(n.body if evaluate(n.test, env, atom_of, free) else n.orelse,
                        env, atom_of, free)
    if isinstance(n, ast.Constant) and isinstance(n.value, bool):
        return n.value
    a = atom_of(n)
    if a is not None:
        kind, payload = a
        if kind == "const":
            return payload
        if kind == "in":
            var, members = payload
            return env[var] in members
        if kind == "eq":
            var, member = payload
            return env[var] == member
        if kind == "ne":
            var, member = payload
            return env[var] != member
        if kind == "bool":
            return bool(env[payload])
    # unforeseen boolean sub-expression: free atom
    src = "free:" + " ".join(ast.unparse(n).split())
    free.setdefault(src, n)
    if src not in env:
        raise _NeedFree(src)
    return bool(env[src])


class _NeedFree(Exception):
    def __init__(self, name):
        self.name = name


def truth_table(expr, domain: dict, atom_of):
    """-> (list of (point dict, value)), with free atoms added to the domain"""
    domain = dict(domain)
    free: dict = {}
    while True:
        names = list(domain)
        try:
            rows = []
            for vals in itertools.product(*[domain[k] for k in names]):
                env = dict(zip(names, vals))
                rows.append((env, evaluate(expr, env, atom_of, free)))
            return rows, free
        except _NeedFree as e:
            if len(free) > 6:
                raise Unknown("too many unrecognised sub-expressions in predicate: "
                              + ", ".join(list(free)[:4]))
            domain[e.name] = [False, True]
