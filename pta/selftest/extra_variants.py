"""Hand-written breaking variants (merged into variants.json by
tools/gen_selftest.py): reversals that `git show -R` can no longer produce
because a later fix touched the same lines."""

EXTRA = [
    {"name": "unfix-97edeb4+a3d7ea5", "kind": "break",
     "what": "reverts both numpy-scalar key fixes: the override is removed, numpy scalars "
             "are keyed by their bytes only again",
     "edits": [{"file": "pytato/analysis/__init__.py",
                "old": """    def update_for_numpy_scalar(self, key_hash: Any, key: Any) -> None:
        import numpy as np
        if isinstance(key, np.integer):
            # interchangeable with (and equal to) the Python int of the same
            # value wherever expressions hold integers (indices, shapes, shifts)
            self.update_for_int(key_hash, int(key))
        else:
            # bytes alone do not identify a scalar: np.float32(2) and
            # np.int32(1073741824) have the same bytes
            self.rec(key_hash, key.dtype.str)
            super().update_for_numpy_scalar(key_hash, key)

""",
                "new": ""}]},
]
