"""Hand-written breaking variants (merged into variants.json by
tools/gen_selftest.py): reversals that `git show -R` can no longer produce
because a later fix touched the same lines."""

EXTRA = [
    {"name": "unfix-97edeb4+a3d7ea5+9d86ba8", "kind": "break",
     "what": "reverts all numpy-scalar key fixes: the override is removed, numpy scalars "
             "are keyed by their bytes only again",
     "edits": [{"file": "pytato/analysis/__init__.py",
                "old": '    def update_for_numpy_scalar(self, key_hash: Any, key: Any) -> None:\n        import numpy as np\n        if isinstance(key, np.integer):\n            # interchangeable with (and equal to) the Python int of the same\n            # value wherever expressions hold integers (indices, shapes, shifts)\n            self.update_for_int(key_hash, int(key))\n        elif isinstance(key, np.floating) and key.dtype.itemsize <= 8:\n            # equal to (and hashed like) the Python float of the same value:\n            # less(x, 2.0) == less(x, np.float64(2.0))\n            self.update_for_float(key_hash, float(key))\n        elif isinstance(key, np.complexfloating) and key.dtype.itemsize <= 16:\n            self.update_for_complex(key_hash, complex(key))\n        else:\n            # bytes alone do not identify a scalar: np.float32(2) and\n            # np.int32(1073741824) have the same bytes\n            self.rec(key_hash, key.dtype.str)\n            super().update_for_numpy_scalar(key_hash, key)\n\n',
                "new": ""}]},
    {"name": "unfix-a3d7ea5", "kind": "break",
     "what": "numpy integers are keyed with their dtype again instead of like the Python "
             "int they equal",
     "edits": [{"file": "pytato/analysis/__init__.py",
                "old": '        if isinstance(key, np.integer):\n            # interchangeable with (and equal to) the Python int of the same\n            # value wherever expressions hold integers (indices, shapes, shifts)\n            self.update_for_int(key_hash, int(key))\n        elif isinstance(key, np.floating) and key.dtype.itemsize <= 8:',
                "new": '        if isinstance(key, np.floating) and key.dtype.itemsize <= 8:'}]},
]
