"""Rule self-test (thorough tier): every rule must fire on its breaking
variants and stay silent on the passing twins.

Variants are text edits (file, old, new) applied to a scratch copy of
/repo/pytato under $TMPDIR (never under /repo or /verif), analysed in a
process pool and removed immediately.  The outcome can only make the run end
in exit 0 or exit 2 (checker defect): it never decides the property."""
from __future__ import annotations

import json
import os
import shutil
import subprocess
import sys
import tempfile
from concurrent.futures import ThreadPoolExecutor
from pathlib import Path

HERE = Path(__file__).resolve().parent
VERIF = HERE.parent.parent


def load_variants():
    vs = json.loads((HERE / "variants.json").read_text())["variants"]
    from pta.selftest.twins import TWINS
    bp = HERE / "benign.json"
    benign = json.loads(bp.read_text())["variants"] if bp.exists() else []
    return vs + TWINS + benign


def _sig(toks, i, step):
    """next/previous token that is not a line break or comment"""
    import tokenize
    j = i + step
    while 0 <= j < len(toks) and toks[j].type in (tokenize.NL, tokenize.COMMENT):
        j += step
    return toks[j] if 0 <= j < len(toks) else None


def _rename_in_function(src: str, func: str, ren: dict) -> str | None:
    """rename local identifiers (NAME tokens not preceded by '.', not keyword
    names in calls) inside the function ``Class.method`` / ``func``"""
    import ast
    import io
    import tokenize
    tree = ast.parse(src)
    target = None
    parts = func.split(".")

    def find(body, parts):
        for n in body:
            if isinstance(n, (ast.FunctionDef, ast.ClassDef)) and n.name == parts[0]:
                if len(parts) == 1:
                    return n      # (for overloads the last definition wins below)
                r = find(n.body, parts[1:])
                if r is not None:
                    return r
        return None
    # last definition with that name (overloads come first)
    cands = []

    def collect(body, parts):
        for n in body:
            if isinstance(n, (ast.FunctionDef, ast.ClassDef)) and n.name == parts[0]:
                if len(parts) == 1:
                    cands.append(n)
                else:
                    collect(n.body, parts[1:])
    collect(tree.body, parts)
    if not cands:
        return None
    target = cands[-1]
    lo, hi = target.lineno, target.end_lineno
    toks = list(tokenize.generate_tokens(io.StringIO(src).readline))
    lines = src.splitlines(keepends=True)
    edits = []
    found = set()
    stack = []
    for i, t in enumerate(toks):
        if t.type == tokenize.OP and t.string in "([{":
            stack.append(t.string)
        elif t.type == tokenize.OP and t.string in ")]}" and stack:
            stack.pop()
        if t.type == tokenize.NAME and t.string in ren and lo <= t.start[0] <= hi:
            prev = _sig(toks, i, -1)
            nxt = _sig(toks, i, +1)
            if prev is not None and ((prev.type == tokenize.OP and prev.string == ".")
                                     or prev.string in ("def", "class")):
                continue
            if nxt is not None and nxt.type == tokenize.OP and nxt.string == "=" \
                    and prev is not None and prev.string in ("(", ",") \
                    and stack and stack[-1] == "(":
                # keyword argument name in a call (or a defaulted parameter)
                continue
            edits.append((t.start, t.end, ren[t.string]))
            found.add(t.string)
    if found != set(ren):
        return None
    for (sl, sc), (_el, ec), new in sorted(edits, reverse=True):
        line = lines[sl - 1]
        lines[sl - 1] = line[:sc] + new + line[ec:]
    return "".join(lines)


def _locals_of(fn) -> set:
    """names bound by assignment/for/with/comprehension in ``fn`` itself
    (not parameters, not imports, not global/nonlocal, not nested defs)"""
    import ast
    out, banned = set(), set()
    params = {a.arg for a in ast.walk(fn.args) if isinstance(a, ast.arg)}

    def walk(n, top):
        for ch in ast.iter_child_nodes(n):
            if isinstance(ch, (ast.FunctionDef, ast.AsyncFunctionDef, ast.ClassDef, ast.Lambda)):
                # names used inside nested scopes keep working because the
                # whole line span is renamed; their own bindings are not ours,
                # and a name they bind themselves must not be renamed by us
                for x in ast.walk(ch):
                    if isinstance(x, ast.arg):
                        banned.add(x.arg)
                    if isinstance(x, ast.Name) and isinstance(x.ctx, ast.Store):
                        banned.add(x.id)
                    if isinstance(x, (ast.Global, ast.Nonlocal)):
                        banned.update(x.names)
                    if isinstance(x, (ast.FunctionDef, ast.ClassDef)):
                        banned.add(x.name)
                if not isinstance(ch, ast.Lambda):
                    banned.add(ch.name)
                continue
            if isinstance(ch, (ast.Global, ast.Nonlocal)):
                banned.update(ch.names)
            if isinstance(ch, (ast.Import, ast.ImportFrom)):
                for a in ch.names:
                    banned.add((a.asname or a.name).split(".")[0])
            if isinstance(ch, ast.ExceptHandler) and ch.name:
                banned.add(ch.name)
            if isinstance(ch, ast.Name) and isinstance(ch.ctx, ast.Store):
                out.add(ch.id)
            if isinstance(ch, (ast.MatchAs, ast.MatchStar)) and ch.name:
                banned.add(ch.name)
            walk(ch, False)
    walk(fn, True)
    return {n for n in out - banned - params if not n.startswith("__")}


def _rename_all_locals(src: str) -> str:
    """every local variable of every top-level function / method gets the
    suffix _r (a behaviour-preserving edit that changes a lot of text)"""
    import ast
    import io
    import tokenize
    tree = ast.parse(src)
    spans = []      # (lo, hi, names)

    def funcs(body):
        for n in body:
            if isinstance(n, (ast.FunctionDef, ast.AsyncFunctionDef)):
                kw = set()
                for x in ast.walk(n):
                    # keyword names used in calls inside the function: a local
                    # of that name stays (f(shape=shape) is fine, but
                    # dict(**locals()) style tricks are not worth the risk)
                    if isinstance(x, ast.Call) and isinstance(x.func, ast.Name) \
                            and x.func.id in ("locals", "vars", "eval", "exec"):
                        kw.add("*")
                if "*" in kw:
                    continue
                names = _locals_of(n)
                if names:
                    spans.append((n.lineno, n.end_lineno, names))
            elif isinstance(n, ast.ClassDef):
                funcs(n.body)
            elif isinstance(n, (ast.If, ast.Try)):
                funcs(n.body)
                funcs(getattr(n, "orelse", []))
    funcs(tree.body)
    if not spans:
        return src
    toks = list(tokenize.generate_tokens(io.StringIO(src).readline))
    lines = src.splitlines(keepends=True)
    edits = []
    stack = []
    for i, t in enumerate(toks):
        if t.type == tokenize.OP and t.string in "([{":
            stack.append(t.string)
        elif t.type == tokenize.OP and t.string in ")]}" and stack:
            stack.pop()
        if t.type != tokenize.NAME:
            continue
        for lo, hi, names in spans:
            if lo <= t.start[0] <= hi and t.string in names:
                prev = _sig(toks, i, -1)
                nxt = _sig(toks, i, +1)
                if prev is not None and ((prev.type == tokenize.OP and prev.string == ".")
                                         or prev.string in ("def", "class")):
                    break
                if nxt is not None and nxt.type == tokenize.OP and nxt.string == "=" \
                        and prev is not None and prev.string in ("(", ",") \
                        and stack and stack[-1] == "(":
                    break
                edits.append((t.start, t.end, t.string + "_r"))
                break
    for (sl, sc), (_el, ec), new in sorted(edits, reverse=True):
        line = lines[sl - 1]
        lines[sl - 1] = line[:sc] + new + line[ec:]
    return "".join(lines)


def _apply(scratch: Path, edits) -> bool:
    for e in edits:
        if "transform" in e:
            import ast
            files = sorted(scratch.glob(e["glob"]))
            if not files:
                return False
            for p in files:
                s = p.read_text()
                if e["transform"] == "unparse":
                    s2 = ast.unparse(ast.parse(s)) + "\n"
                elif e["transform"] == "invert_if_else":
                    tree = ast.parse(s)
                    for n in ast.walk(tree):
                        if isinstance(n, ast.If) and n.orelse and not (
                                len(n.orelse) == 1 and isinstance(n.orelse[0], ast.If)):
                            t = n.test
                            n.test = t.operand if (isinstance(t, ast.UnaryOp)
                                                   and isinstance(t.op, ast.Not)) \
                                else ast.UnaryOp(op=ast.Not(), operand=t)
                            n.body, n.orelse = n.orelse, n.body
                    s2 = ast.unparse(ast.fix_missing_locations(tree)) + "\n"
                elif e["transform"] == "swap_eq_operands":
                    tree = ast.parse(s)
                    for n in ast.walk(tree):
                        if isinstance(n, ast.Compare) and len(n.ops) == 1 and isinstance(
                                n.ops[0], (ast.Eq, ast.NotEq, ast.Is, ast.IsNot)):
                            n.left, n.comparators = n.comparators[0], [n.left]
                    s2 = ast.unparse(ast.fix_missing_locations(tree)) + "\n"
                elif e["transform"] == "isinstance_tuple":
                    tree = ast.parse(s)
                    for n in ast.walk(tree):
                        if isinstance(n, ast.Call) and isinstance(n.func, ast.Name) \
                                and n.func.id == "isinstance" and len(n.args) == 2 \
                                and isinstance(n.args[1], ast.BinOp) \
                                and isinstance(n.args[1].op, ast.BitOr):
                            parts = []

                            def flat(x):
                                if isinstance(x, ast.BinOp) and isinstance(x.op, ast.BitOr):
                                    flat(x.left)
                                    flat(x.right)
                                else:
                                    parts.append(x)
                            flat(n.args[1])
                            n.args[1] = ast.Tuple(elts=parts, ctx=ast.Load())
                    s2 = ast.unparse(ast.fix_missing_locations(tree)) + "\n"
                elif e["transform"] == "reverse_keywords":
                    tree = ast.parse(s)
                    for n in ast.walk(tree):
                        if isinstance(n, ast.Call) and len(n.keywords) > 1 \
                                and all(k.arg is not None for k in n.keywords):
                            n.keywords = list(reversed(n.keywords))
                    s2 = ast.unparse(tree) + "\n"
                elif e["transform"] == "rename_all_locals":
                    s2 = _rename_all_locals(s)
                else:
                    return False
                try:
                    compile(s2, str(p), "exec")
                except SyntaxError:
                    return False
                p.write_text(s2)
            continue
        p = scratch / e["file"]
        if not p.exists():
            return False
        s = p.read_text()
        if "rename" in e:
            s2 = _rename_in_function(s, e["func"], e["rename"])
            if s2 is None:
                return False
            try:
                compile(s2, str(p), "exec")
            except SyntaxError:
                return False
            p.write_text(s2)
            continue
        if s.count(e["old"]) < 1:
            return False
        p.write_text(s.replace(e["old"], e["new"], 1))
    return True


def _run_one(args):
    prop, v, repo = args
    tmp = Path(tempfile.mkdtemp(prefix="pta-selftest-"))
    try:
        shutil.copytree(Path(repo) / "pytato", tmp / "pytato",
                        ignore=shutil.ignore_patterns("__pycache__"))
        if not _apply(tmp, v["edits"]):
            return (v["name"], "stale", "")
        r = subprocess.run(
            [sys.executable, "-m", "pta.check", prop, "--repo", str(tmp),
             "--no-evidence", "--tier", "quick"],
            cwd=str(VERIF), capture_output=True, text=True, timeout=600,
            env=dict(os.environ, PYTHONPATH=str(VERIF), PTA_IN_SELFTEST="1"))
        out = r.stdout
        if v["kind"] == "break":
            ok = r.returncode == 1 and (not v.get("expect_rule")
                                        or v["expect_rule"] in out)
            return (v["name"], "fired" if ok else f"NOT-FIRED(rc={r.returncode})",
                    "" if ok else out[-300:])
        ok = r.returncode == 0
        return (v["name"], "silent" if ok else f"ALARM(rc={r.returncode})",
                "" if ok else "\n".join(l for l in out.splitlines() if " at " in l)[:400])
    finally:
        shutil.rmtree(tmp, ignore_errors=True)


def run_selftest(prop, _spec_selftest, model, seed):
    vs = [v for v in load_variants() if prop in v["props"]]
    import random
    random.Random(seed).shuffle(vs)
    jobs = [(prop, v, str(model.repo)) for v in vs]
    with ThreadPoolExecutor(max_workers=min(16, os.cpu_count() or 4)) as ex:
        res = list(ex.map(_run_one, jobs))
    fired = sum(1 for r in res if r[1] == "fired")
    silent = sum(1 for r in res if r[1] == "silent")
    stale = [r[0] for r in res if r[1] == "stale"]
    failures = [f"{n}: {st} {d}" for (n, st, d) in res
                if st not in ("fired", "silent", "stale")]
    applicable = len(res) - len(stale)
    if res and applicable < 0.6 * len(res):
        failures.append(f"only {applicable} of {len(res)} variants still apply to this "
                        "tree (catalogue stale)")
    return {"summary": {"variants": len(res), "fired": fired, "silent_twins": silent,
                        "stale": stale}, "failures": failures}
