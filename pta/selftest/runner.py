"""Rule self-test (thorough tier): every rule must fire on its breaking
variants and stay silent on the passing twins.

Variants are text edits (file, old, new) applied to a scratch copy of
/repo/pytato under $TMPDIR (never under /repo or /verif), analysed in a
process pool and removed immediately.  The outcome can only make the run end
in exit 0 or exit 2 (checker defect): it never decides the property."""
from __future__ import annotations

import json
import os
import shutil
import subprocess
import sys
import tempfile
from concurrent.futures import ThreadPoolExecutor
from pathlib import Path

HERE = Path(__file__).resolve().parent
VERIF = HERE.parent.parent


def load_variants():
    vs = json.loads((HERE / "variants.json").read_text())["variants"]
    from pta.selftest.twins import TWINS
    return vs + TWINS


def _apply(scratch: Path, edits) -> bool:
    for e in edits:
        p = scratch / e["file"]
        if not p.exists():
            return False
        s = p.read_text()
        if s.count(e["old"]) < 1:
            return False
        p.write_text(s.replace(e["old"], e["new"], 1))
    return True


def _run_one(args):
    prop, v, repo = args
    tmp = Path(tempfile.mkdtemp(prefix="pta-selftest-"))
    try:
        shutil.copytree(Path(repo) / "pytato", tmp / "pytato",
                        ignore=shutil.ignore_patterns("__pycache__"))
        if not _apply(tmp, v["edits"]):
            return (v["name"], "stale", "")
        r = subprocess.run(
            [sys.executable, "-m", "pta.check", prop, "--repo", str(tmp),
             "--no-evidence", "--tier", "quick"],
            cwd=str(VERIF), capture_output=True, text=True, timeout=600,
            env=dict(os.environ, PYTHONPATH=str(VERIF)))
        out = r.stdout
        if v["kind"] == "break":
            ok = r.returncode == 1 and (not v.get("expect_rule")
                                        or v["expect_rule"] in out)
            return (v["name"], "fired" if ok else f"NOT-FIRED(rc={r.returncode})",
                    "" if ok else out[-300:])
        ok = r.returncode == 0
        return (v["name"], "silent" if ok else f"ALARM(rc={r.returncode})",
                "" if ok else "\n".join(l for l in out.splitlines() if " at " in l)[:400])
    finally:
        shutil.rmtree(tmp, ignore_errors=True)


def run_selftest(prop, _spec_selftest, model, seed):
    vs = [v for v in load_variants() if prop in v["props"]]
    import random
    random.Random(seed).shuffle(vs)
    jobs = [(prop, v, str(model.repo)) for v in vs]
    with ThreadPoolExecutor(max_workers=min(16, os.cpu_count() or 4)) as ex:
        res = list(ex.map(_run_one, jobs))
    fired = sum(1 for r in res if r[1] == "fired")
    silent = sum(1 for r in res if r[1] == "silent")
    stale = [r[0] for r in res if r[1] == "stale"]
    failures = [f"{n}: {st} {d}" for (n, st, d) in res
                if st not in ("fired", "silent", "stale")]
    applicable = len(res) - len(stale)
    if res and applicable < 0.6 * len(res):
        failures.append(f"only {applicable} of {len(res)} variants still apply to this "
                        "tree (catalogue stale)")
    return {"summary": {"variants": len(res), "fired": fired, "silent_twins": silent,
                        "stale": stale}, "failures": failures}
