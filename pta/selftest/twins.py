"""Passing twins: behaviour-preserving refactorings that must stay silent."""
TWINS = []
