"""Passing twins: behaviour-preserving edits of /repo/pytato on which every
check must stay silent (exit 0).  They are the counterpart of the breaking
variants in variants.json: a rule that fires on one of these is matching text
rather than the property, and the thorough tier fails with ANALYSIS-ERROR.

Edit kinds (see runner._apply):
  {"file", "old", "new"}            literal text replacement (first occurrence)
  {"file", "func", "rename": {..}}  rename local identifiers inside one function
"""

ALL = ["C01", "C02", "C03", "C04", "C05", "C06", "C07", "C09", "C10", "C12",
       "C13", "C14", "C15", "C16", "C17", "C18", "C19", "C20"]

LC = "pytato/target/loopy/codegen.py"
NL = "pytato/target/python/numpy_like.py"
EDL = "pytato/transform/einsum_distributive_law.py"
AN = "pytato/analysis/__init__.py"
TR = "pytato/transform/__init__.py"


def _t(name, what, edits, props=ALL):
    return {"name": "twin-" + name, "kind": "twin", "what": what, "props": props,
            "edits": edits}


def _ren(file, func, **ren):
    return {"file": file, "func": func, "rename": ren}


TWINS = [
    # ---- local renames in the functions the anchored rules look at ----------
    _t("rename-edl-locals", "rename hlo/rec_x1/rec_x2 in the einsum distributive law",
       [_ren(EDL, "EinsumDistributiveLawMapper.map_index_lambda",
             hlo="raised", rec_x1="new_lhs", rec_x2="new_rhs"),
        _ren(EDL, "EinsumDistributiveLawMapper.map_einsum",
             distributive_law_descr="descr", iarg="i_operand", arg="operand"),
        _ren(EDL, "_wrap_einsum_from_ctx", new_args="operands", iarg="k")]),
    _t("rename-rbe-locals", "rename locals of the no-broadcast einsum rewriter",
       [_ren("pytato/transform/remove_broadcasts_einsum.py",
             "EinsumWithNoBroadcastsRewriter.map_einsum",
             new_args="args_out", new_access_descriptors="descrs_out",
             acc_descrs="descrs", idim="k", acc_descr="d",
             axes_to_squeeze_list="squeeze_list", descr_to_axis_len="axis_len_of"),
        _ren("pytato/transform/remove_broadcasts_einsum.py",
             "EinsumWithNoBroadcastsRewriter._squeeze_axes", idim="k"),
        _ren("pytato/transform/remove_broadcasts_einsum.py",
             "EinsumWithNoBroadcastsRewriter.rec", rec_result="rewritten")]),
    _t("rename-raiser-locals", "rename inner_expr/children/bin_op in the raiser",
       [_ren("pytato/raising.py", "index_lambda_to_high_level_op",
             inner_expr="scalar", children="operands", bin_op="op_type"),
        _ren("pytato/raising.py", "_as_array_or_scalar",
             binding_to_subscript="expected_subscript", bnd_name="nm", bnd="ary"),
        _ren("pytato/raising.py", "_is_idx_lambda_broadcast_op",
             from_shape="src_shape", to_shape="dst_shape", input_name="nm")]),
    _t("rename-shape-decision-locals", "rename locals of the affine shape comparison",
       [_ren("pytato/utils.py", "are_shape_components_equal",
             dim1_minus_dim2="difference", aff="affine", space="param_space",
             named_inputs="params", inputs="all_inputs"),
        _ren("pytato/utils.py", "are_shapes_equal", dim1="a", dim2="b"),
        _ren("pytato/utils.py", "ShapeToISLExpressionMapper.map_size_param",
             dt="dim_type", pos="idx")]),
    _t("rename-codegen-locals", "rename locals of the loopy code generator",
       [_ren(LC, "CodeGenMapper.map_index_lambda",
             store_result="must_store", loopy_expr="generated", prstnt_ctx="pctx",
             result="impl_result", il_expr="scalar_expr"),
        _ren(LC, "generate_loopy",
             compute_order="order_of_outputs", preproc_result="pre", cg_mapper="cgm"),
        _ren(LC, "CodeGenMapper.map_loopy_call", callee_kernel="callee"),
        _ren(LC, "add_store", loopy_expr_context="ectx", loopy_expr="rhs")]),
    _t("rename-numpy-target-locals", "rename locals of the Python/NumPy target",
       [_ren(NL, "generate_numpy_like", cgen_mapper="mapper_", result_var="res"),
        _ren(NL, "NumpyCodegenMapper.map_index_lambda", hlo="raised"),
        _ren(NL, "NumpyCodegenMapper.map_data_wrapper", name="arg_name")]),
    _t("rename-analysis-locals", "rename locals of the analysis mappers",
       [_ren(AN, "CallSiteCountMapper.map_function_definition",
             new_mapper="callee_mapper", subexpr="ret"),
        _ren(AN, "get_nusers", list_of_users_collector="collector", ary="node",
             users="its_users"),
        _ren(AN, "MaterializedNodeCollector.post_visit", subexpr="bound"),
        _ren(AN, "TagCountMapper.rec", s="below", inputs="cache_inputs", tag="t")]),
    _t("rename-function-locals", "rename locals of trace_call / FunctionDefinition.__call__",
       [_ren("pytato/function.py", "trace_call", returns="rets", return_type="rtype",
             function="fdef", output="out"),
        _ren("pytato/function.py", "FunctionDefinition.__call__", call_site="site")]),
    _t("rename-dedup-locals", "rename cache_key in the data wrapper de-duplicator",
       [_ren(TR, "DataWrapperDeduplicator.map_data_wrapper", cache_key="k")]),
    _t("rename-distributed-locals", "rename locals of tag numbering",
       [_ren("pytato/distributed/tags.py", "number_distributed_tags",
             sym_tag_to_int_tag="numbering", all_tags="gathered", sym_tag="t",
             root_rank="root", tags="my_tags", recv="r", send="s_", sends="ss")]),
    _t("rename-identical-helper-params", "rename loop variables of _entries_are_identical",
       [_ren("pytato/array.py", "_entries_are_identical", a_k="av", k="key",
             a_i="x", b_i="y")]),
    _t("rename-reviewed-loop-variables",
       "rename loop variables inside iterations listed in the reviewed table",
       [_ren(LC, "add_store", tag="t_", axis="ax_"),
        _ren("pytato/array.py", "make_index_lambda", redn_var="rv_"),
        _ren("pytato/codegen.py", "check_validity_of_outputs", ary="a_"),
        _ren("pytato/transform/lower_to_index_lambda.py", "_get_reshaped_indices",
             old_ax_len_product="old_prod", new_ax_len_product="new_prod")]),
    _t("rename-lowering-index-variable", "rename idx in one of the three index lowerings",
       [_ren("pytato/transform/lower_to_index_lambda.py",
             "ToIndexLambdaMixin.map_contiguous_advanced_index", idx="index_")]),
    # ---- moved lines, reordered tables, reformatting -------------------------
    _t("shift-lines", "insert comment lines at the top of the central modules",
       [{"file": f, "old": "from __future__ import annotations\n",
         "new": "from __future__ import annotations\n# moved\n# down\n# by\n# four\n"}
        for f in ("pytato/array.py", TR, LC, AN, "pytato/raising.py",
                  "pytato/equality.py", "pytato/utils.py",
                  "pytato/transform/lower_to_index_lambda.py")]),
    _t("reorder-raiser-table", "reorder the entries of the raiser's binary-op table",
       [{"file": "pytato/raising.py",
         "old": "                                  p.LogicalOr:  BinaryOpType.LOGICAL_OR,\n"
                "                                  p.LogicalAnd: BinaryOpType.LOGICAL_AND,\n",
         "new": "                                  p.LogicalAnd: BinaryOpType.LOGICAL_AND,\n"
                "                                  p.LogicalOr:  BinaryOpType.LOGICAL_OR,\n"}]),
    _t("reorder-predicate-conjuncts",
       "swap the two isinstance conjuncts of the integer fast path",
       [{"file": "pytato/utils.py",
         "old": "if isinstance(dim1, INT_CLASSES) and isinstance(dim2, INT_CLASSES):",
         "new": "if isinstance(dim2, INT_CLASSES) and isinstance(dim1, INT_CLASSES):"}]),
    _t("strip-stored-tag-other-arm",
       "write the ImplStored stripping with the condition the other way round",
       [{"file": LC,
         "old": """        {name: (output.without_tags(ImplStored(),
                                    verify_existence=False)
                if not isinstance(output,
                                  InputArgumentBase)
                else output)""",
         "new": """        {name: (output
                if isinstance(output, InputArgumentBase)
                else output.without_tags(ImplStored(), verify_existence=False))"""}]),
    _t("sorted-twice", "sort an already sorted iteration once more",
       [{"file": LC, "old": "for name in sorted(expr.bindings)},",
         "new": "for name in sorted(sorted(expr.bindings))},"}], props=["C17", "C13", "C05"]),
    _t("squeeze-membership-positive",
       "write the squeeze subscript with the positive membership test",
       [{"file": "pytato/transform/remove_broadcasts_einsum.py",
         "old": "slice(None) if idim not in axes_to_squeeze else 0",
         "new": "0 if idim in axes_to_squeeze else slice(None)"}]),
    _t("union-augmented", "accumulate dependencies with |= instead of x = x | y",
       [{"file": LC, "old": "self._depends_on = self._depends_on | other",
         "new": "self._depends_on |= other"}]),
    # ---- benign feature-style changes --------------------------------------------
    _t("new-c99-function-everywhere",
       "a new element-wise function (log2) added consistently: front end, raiser table",
       [{"file": "pytato/cmath.py",
         "old": "def log10(x: ArrayOrScalarT) -> ArrayOrScalarT:\n"
                "    return _apply_elem_wise_func((x,), \"log10\")\n",
         "new": "def log10(x: ArrayOrScalarT) -> ArrayOrScalarT:\n"
                "    return _apply_elem_wise_func((x,), \"log10\")\n\n\n"
                "def log2(x: ArrayOrScalarT) -> ArrayOrScalarT:\n"
                "    return _apply_elem_wise_func((x,), \"log2\")\n"},
        {"file": "pytato/raising.py",
         "old": "\"sinh\", \"cosh\", \"tanh\", \"exp\", \"log\", \"log10\", \"isnan\",",
         "new": "\"sinh\", \"cosh\", \"tanh\", \"exp\", \"log\", \"log10\", \"log2\", \"isnan\","}]),
    _t("new-copy-mapper-subclass",
       "a new CopyMapper subclass that overrides one handler and delegates to super()",
       [{"file": "pytato/transform/__init__.py",
         "old": "# {{{ CombineMapper\n",
         "new": "class _TracingCopyMapper(CopyMapper):\n"
                "    \"\"\"Copies and counts the rolls it sees.\"\"\"\n"
                "    def __init__(self) -> None:\n"
                "        super().__init__()\n"
                "        self.nrolls = 0\n\n"
                "    def map_roll(self, expr: Roll) -> Array:\n"
                "        self.nrolls += 1\n"
                "        return super().map_roll(expr)\n\n\n"
                "# {{{ CombineMapper\n"}]),
    _t("helper-extracted-in-copy-mapper",
       "the body of CopyMapper.map_roll moved into a helper method it calls",
       [{"file": "pytato/transform/__init__.py",
         "old": "    def map_roll(self, expr: Roll) -> Array:\n"
                "        new_ary = _verify_is_array(self.rec(expr.array))\n"
                "        return expr.replace_if_different(array=new_ary)\n",
         "new": "    def _copy_with_new_array(self, expr: Roll) -> Array:\n"
                "        new_ary = _verify_is_array(self.rec(expr.array))\n"
                "        return expr.replace_if_different(array=new_ary)\n\n"
                "    def map_roll(self, expr: Roll) -> Array:\n"
                "        return self._copy_with_new_array(expr)\n"}]),
    _t("messages-and-asserts",
       "error messages reworded, an assertion and a logging call added",
       [{"file": "pytato/array.py",
         "old": "        raise ValueError(\"need at least one array to stack\")\n\n"
                "    def shape_except_axis",
         "new": "        raise ValueError(\"concatenate() needs at least one array\")\n\n"
                "    assert isinstance(axis, int)\n\n"
                "    def shape_except_axis"},
        {"file": "pytato/utils.py",
         "old": "        raise ValueError(\"slice step cannot be zero\")\n",
         "new": "        raise ValueError(\"a slice must have a non-zero step\")\n"}]),
    # ---- whole-package rewrites ------------------------------------------------
    _t("unparse-everything",
       "every module replaced by ast.unparse of itself: comments gone, all line "
       "numbers and the formatting changed, no token of the program changed",
       [{"glob": "pytato/**/*.py", "transform": "unparse"}]),
    _t("invert-if-else",
       "every two-armed if statement of the package written the other way round "
       "(test negated, arms exchanged)",
       [{"glob": "pytato/**/*.py", "transform": "invert_if_else"}]),
    _t("swap-operands-of-symmetric-comparisons",
       "the operands of every ==, !=, is, is not of the package exchanged",
       [{"glob": "pytato/**/*.py", "transform": "swap_eq_operands"}]),
    _t("isinstance-with-tuples",
       "every isinstance(x, A | B) written as isinstance(x, (A, B))",
       [{"glob": "pytato/**/*.py", "transform": "isinstance_tuple"}]),
    _t("reverse-keyword-arguments",
       "the keyword arguments of every call in the package written in reverse order",
       [{"glob": "pytato/**/*.py", "transform": "reverse_keywords"}]),
    _t("rename-all-locals",
       "every local variable of every function in the package renamed (suffix _r)",
       [{"glob": "pytato/**/*.py", "transform": "rename_all_locals"}]),
]
