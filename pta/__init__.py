"""pta -- pytato static analyser (stdlib only).

Decides structural clauses of the properties in /verif/properties.jsonl from
the *source* of /repo/pytato, without importing or running it.
"""
