"""Unordered-iteration analysis.

Finds every place where a function's behaviour can depend on the iteration
order of a set/frozenset-typed value (or of a dict whose insertion sequence
came from one) and classifies it: discharged by form, or an *instance* that
has to be reviewed.
"""
from __future__ import annotations

import ast
from dataclasses import dataclass

from pta.model import Model

SET_CTORS = {"set", "frozenset"}
SET_ANN = ("set[", "frozenset[", "Set[", "FrozenSet[", "AbstractSet[", "KeysView")
ORDERED_CTORS = {"OrderedSet", "FrozenOrderedSet", "list", "tuple", "sorted", "dict",
                 "constantdict", "deque"}
# consumers for which the order of the iterable cannot matter
COMMUTATIVE_CONSUMERS = {"set", "frozenset", "any", "all", "sum", "min", "max", "len",
                         "sorted", "Counter"}
COMMUTATIVE_METHODS = {"add_names", "update", "union", "intersection", "difference",
                       "issubset", "issuperset", "isdisjoint", "add", "discard",
                       "intersection_update", "difference_update", "remove"}
ORDER_CONSUMERS = {"list", "tuple", "enumerate", "zip", "next", "iter", "dict",
                   "OrderedSet", "FrozenOrderedSet", "constantdict", "reversed",
                   "chain", "map", "filter"}


@dataclass
class Site:
    func: str            # qualified function name
    node: ast.AST        # the iteration construct
    iter_node: ast.AST   # the unordered expression
    why: str             # why it is considered unordered
    stmt_text: str       # normalised text of the enclosing statement
    discharged: str | None = None   # reason if discharged by form

    @property
    def key(self):
        return f"{self.func}::{self.stmt_text}"


def ann_is_set(ann_src: str, aliases: dict[str, str]) -> bool:
    s = ann_src.strip().strip('"\'')
    s = aliases.get(s, s)
    head = s.split("|")[0].strip()
    return head.startswith(SET_ANN) or head in ("set", "frozenset", "Set", "FrozenSet",
                                                "AbstractSet")


class OrderAnalysis:
    def __init__(self, m: Model, external_order_types=()):
        self.m = m
        self.external_order_types = set(external_order_types)
        self.aliases = self._alias_table()
        self.set_fields, self.ordered_fields = self._field_table()
        self.set_returning = self._set_returning_functions()
        self.set_mappers = self._set_result_mappers()
        self.self_attr_types = self._self_attr_table()

    # ------------------------------------------------------------------ tables
    def _alias_table(self):
        out = {}
        for mi in self.m.modules.values():
            for name, val in mi.assigns.items():
                src = ast.unparse(val)
                if src.startswith(("frozenset[", "set[", "AbstractSet[")):
                    out[name] = src
        return out

    def _field_table(self):
        sets, ordered = {}, {}
        for qn, ci in self.m.classes.items():
            for (n, ann, *_r) in ci.own_fields:
                (sets if ann_is_set(ast.unparse(ann), self.aliases) else ordered) \
                    .setdefault(n, set()).add(qn)
        return sets, ordered

    def _set_returning_functions(self):
        out = set()
        self.nonset_returning = set()
        for mi, fd in self.m.all_functions():
            if fd.returns is not None and ann_is_set(ast.unparse(fd.returns),
                                                     self.aliases):
                out.add(fd.name)
            elif fd.returns is not None:
                self.nonset_returning.add(fd.name)
        return out

    def _set_result_mappers(self):
        """mapper classes whose per-node result type is a frozenset"""
        out = set()
        for qn, ci in self.m.classes.items():
            for c in self.m.mro(qn):
                cc = self.m.classes[c]
                for b in cc.node.bases:
                    if isinstance(b, ast.Subscript):
                        sl = b.slice
                        first = sl.elts[0] if isinstance(sl, ast.Tuple) and sl.elts else sl
                        if ann_is_set(ast.unparse(first), self.aliases):
                            out.add(qn)
                if qn in out:
                    break
        return out

    def _self_attr_table(self):
        """class -> {attr: 'set'|'ordered'} from ``self.x: T = ...`` / ``self.x = set()``"""
        out = {}
        for qn, ci in self.m.classes.items():
            tbl = {}
            for fd in ci.methods.values():
                for n in ast.walk(fd):
                    tgt = val = ann = None
                    if isinstance(n, ast.AnnAssign):
                        tgt, val, ann = n.target, n.value, n.annotation
                    elif isinstance(n, ast.Assign) and len(n.targets) == 1:
                        tgt, val = n.targets[0], n.value
                    if not (isinstance(tgt, ast.Attribute) and isinstance(tgt.value, ast.Name)
                            and tgt.value.id == "self"):
                        continue
                    if ann is not None:
                        tbl[tgt.attr] = "set" if ann_is_set(ast.unparse(ann),
                                                            self.aliases) else "ordered"
                    elif val is not None and tgt.attr not in tbl:
                        if isinstance(val, (ast.Set, ast.SetComp)) or (
                                isinstance(val, ast.Call) and isinstance(val.func, ast.Name)
                                and val.func.id in SET_CTORS):
                            tbl[tgt.attr] = "set"
            out[qn] = tbl
        return out

    def _cls_attr(self, cls, attr):
        if cls is None:
            return None
        for c in self.m.mro(cls):
            t = self.self_attr_types.get(c, {}).get(attr)
            if t:
                return t
            for (n, ann, *_r) in self.m.classes[c].own_fields:
                if n == attr:
                    return "set" if ann_is_set(ast.unparse(ann), self.aliases) \
                        else "ordered"
        return None

    # ------------------------------------------------------------ per function
    def analyse_function(self, mi, fd, cls, inherited=None):
        fa = _FuncAnalysis(self, mi, fd, cls, inherited)
        sites = fa.run()
        inh = {"vars": dict(fa.vars), "ordered": set(fa.ordered_vars),
               "mappers": set(fa.mapper_vars), "obj_class": dict(fa.obj_class)}
        for sub in _own_nodes(fd):
            if isinstance(sub, (ast.FunctionDef, ast.AsyncFunctionDef)) and sub is not fd:
                sites += self.analyse_function(mi, sub, cls, inh)
        return sites


class _FuncAnalysis:
    def __init__(self, oa: OrderAnalysis, mi, fd, cls, inherited=None):
        self.oa, self.mi, self.fd, self.cls = oa, mi, fd, cls
        self.m = oa.m
        self.qn = self.m.qualname(fd).replace("pytato.", "", 1)
        self.vars: dict[str, str] = {}      # name -> reason it is unordered
        self.ordered_vars: set[str] = set()
        self.sites: list[Site] = []
        self.mapper_vars: set[str] = set()
        self.obj_class: dict[str, str] = {}
        self.inherited = inherited or {}
        self.vars.update(self.inherited.get("vars", {}))
        self.ordered_vars |= self.inherited.get("ordered", set())
        self.mapper_vars |= self.inherited.get("mappers", set())
        self.obj_class.update(self.inherited.get("obj_class", {}))

    # -- is expression unordered?  -> reason | None
    def unordered(self, n) -> str | None:
        oa = self.oa
        if isinstance(n, (ast.Set, ast.SetComp)):
            return "set display/comprehension"
        if isinstance(n, ast.Name):
            if n.id in self.ordered_vars:
                return None
            return self.vars.get(n.id)
        if isinstance(n, ast.Attribute):
            if isinstance(n.value, ast.Name) and n.value.id == "self":
                t = oa._cls_attr(self.cls, n.attr)
                if t == "set":
                    return f"self.{n.attr} is a set"
                if t == "ordered":
                    return None
            if n.attr in oa.set_fields and n.attr not in oa.ordered_fields:
                return f"field .{n.attr} is annotated as a set in " + \
                    ",".join(sorted(c.rsplit(".", 1)[-1] for c in oa.set_fields[n.attr]))
            kinds = {t.get(n.attr) for t in oa.self_attr_types.values()} - {None}
            if kinds == {"set"} and n.attr not in oa.ordered_fields:
                owners = sorted(c.rsplit(".", 1)[-1] for c, t in
                                oa.self_attr_types.items() if n.attr in t)
                return f"attribute .{n.attr} is a set in " + ",".join(owners)
            return None
        if isinstance(n, ast.Call):
            f = n.func
            if isinstance(f, ast.Name):
                if f.id in SET_CTORS:
                    return f"{f.id}(...)"
                if f.id == "sorted" and n.args and not _is_sorted_wrapped(n):
                    # sorted(x, key=k) with a key that can tie: ties keep x's order
                    r0 = self.unordered(n.args[0])
                    if r0:
                        return f"sorted with a key that can tie over: {r0}"
                if f.id in ORDERED_CTORS:
                    return None
                if f.id in self.mapper_vars:
                    return f"result of set-valued mapper {f.id}"
                if f.id in oa.set_returning and f.id not in oa.nonset_returning:
                    return f"{f.id}() is annotated to return a set"
                if f.id in ("cast", "not_none") and n.args:
                    return self.unordered(n.args[-1])
                if f.id == "reduce" and len(n.args) >= 3:
                    return self.unordered(n.args[2]) or (
                        "reduce(frozenset.union, ...)" if "union" in ast.unparse(n.args[0])
                        else None)
                qn = self.m.resolve_name(self.mi.name, f.id)
                if qn in self.m.classes and qn in oa.set_mappers:
                    return None   # the mapper object itself
            if isinstance(f, ast.Attribute):
                if f.attr in ("union", "intersection", "difference",
                              "symmetric_difference", "copy"):
                    return self.unordered(f.value)
                if f.attr in ("keys", "values", "items"):
                    r = self.unordered(f.value)
                    return r if r and r.startswith("dict filled") else None
                if f.attr == "expr" and False:
                    return None
                rcls = None
                if isinstance(f.value, ast.Name):
                    if f.value.id == "self":
                        rcls = self.cls
                    else:
                        rcls = self.obj_class.get(f.value.id)
                if rcls is not None:
                    r = self.m.resolve_method(rcls, f.attr)
                    if r is not None:
                        if r[1].returns is not None and ann_is_set(
                                ast.unparse(r[1].returns), oa.aliases):
                            return f"{rcls.rsplit('.', 1)[-1]}.{f.attr}() returns a set"
                        return None
                if f.attr in oa.set_returning and f.attr not in oa.nonset_returning:
                    return f".{f.attr}() is annotated to return a set"
                if f.attr in ("get", "pop", "setdefault") and len(n.args) >= 2:
                    return self.unordered(n.args[1])
                if f.attr == "tags_of_type":
                    return "tags_of_type() returns a frozenset"
            if isinstance(f, ast.Call) and isinstance(f.func, ast.Name):
                qn = self.m.resolve_name(self.mi.name, f.func.id)
                if qn in oa.set_mappers:
                    return f"result of set-valued mapper {f.func.id}"
            return None
        if isinstance(n, ast.BinOp) and isinstance(n.op, (ast.BitOr, ast.BitAnd, ast.Sub,
                                                        ast.BitXor)):
            return self.unordered(n.left) or self.unordered(n.right)
        if isinstance(n, ast.IfExp):
            return self.unordered(n.body) or self.unordered(n.orelse)
        if isinstance(n, ast.Subscript):
            # element of a mapping whose values are sets: d[k]
            r = self.unordered(n.value)
            if r and r.startswith("mapping of sets"):
                return "element of a " + r
            return None
        if isinstance(n, ast.DictComp):
            for g in n.generators:
                r = self.unordered(g.iter)
                if r and not _is_sorted_wrapped(g.iter):
                    return "dict filled from an unordered iteration (" + r + ")"
            return None
        if isinstance(n, (ast.BoolOp,)):
            for v in n.values:
                r = self.unordered(v)
                if r:
                    return r
        return None

    def _note_assign(self, tgt, val, ann=None):
        if not isinstance(tgt, ast.Name):
            return
        if ann is not None:
            a = ast.unparse(ann)
            if self.oa.external_order_types and a.strip("'\"").split("|")[0].strip() \
                    in self.oa.external_order_types:
                self.vars[tgt.id] = ("dict filled in caller-determined order ("
                                     + a.strip("'\"")[:30] + ")")
                return
            if ann_is_set(a, self.oa.aliases):
                self.vars[tgt.id] = f"{tgt.id} is annotated {a[:40]}"
                return
            if a.startswith(("dict[", "Mapping[", "defaultdict[")) and (
                    "set[" in a.split(",", 1)[-1]):
                self.vars[tgt.id] = f"mapping of sets ({a[:50]})"
                return
            if a.startswith(("OrderedSet", "FrozenOrderedSet", "list", "tuple")):
                self.ordered_vars.add(tgt.id)
                return
        if val is None:
            return
        r = self.unordered(val)
        if r:
            self.vars.setdefault(tgt.id, r)
        if isinstance(val, ast.Call) and isinstance(val.func, ast.Name):
            qn = self.m.resolve_name(self.mi.name, val.func.id)
            if qn in self.oa.set_mappers:
                self.mapper_vars.add(tgt.id)
            if qn in self.m.classes:
                self.obj_class[tgt.id] = qn

    def collect_vars(self):
        fd = self.fd
        for a in fd.args.posonlyargs + fd.args.args + fd.args.kwonlyargs:
            if a.annotation is not None:
                self._note_assign(ast.Name(id=a.arg), None, a.annotation)
        # two rounds for simple forward propagation
        for _ in range(2):
            for n in _own_nodes(fd):
                if isinstance(n, ast.Assign):
                    for t in n.targets:
                        self._note_assign(t, n.value)
                elif isinstance(n, ast.AnnAssign):
                    self._note_assign(n.target, n.value, n.annotation)
                elif isinstance(n, ast.AugAssign) and isinstance(n.target, ast.Name):
                    if isinstance(n.op, (ast.BitOr, ast.BitAnd, ast.Sub)):
                        r = self.unordered(n.value)
                        if r:
                            self.vars.setdefault(n.target.id, r)
                elif isinstance(n, (ast.For, ast.comprehension)):
                    # loop variable over a mapping of sets
                    it = n.iter
                    r = self.unordered(it)
                    if r and r.startswith("mapping of sets") and isinstance(
                            n.target, ast.Tuple) and len(n.target.elts) == 2 \
                            and isinstance(n.target.elts[1], ast.Name):
                        self.vars.setdefault(n.target.elts[1].id,
                                             "element of a " + r)
        # dicts filled inside loops over unordered values
        for n in _own_nodes(fd):
            if isinstance(n, ast.For):
                r = self.unordered(n.iter)
                if r and not _is_sorted_wrapped(n.iter):
                    for st in ast.walk(n):
                        if isinstance(st, ast.Assign) and isinstance(
                                st.targets[0], ast.Subscript) and isinstance(
                                st.targets[0].value, ast.Name):
                            nm = st.targets[0].value.id
                            self.vars.setdefault(
                                nm, f"dict filled from an unordered iteration ({r})")

    # -- sites
    def run(self):
        self.collect_vars()
        fd = self.fd
        for n in _own_nodes(fd):
            if isinstance(n, (ast.FunctionDef, ast.AsyncFunctionDef)) and n is not fd:
                continue
            if isinstance(n, ast.For):
                self._site(n, n.iter, n)
            elif isinstance(n, (ast.ListComp, ast.GeneratorExp, ast.DictComp,
                                ast.SetComp)):
                for g in n.generators:
                    self._site(n, g.iter, n)
            elif isinstance(n, ast.Call):
                f = n.func
                if isinstance(f, ast.Name) and f.id in ORDER_CONSUMERS:
                    for a in n.args:
                        self._site(n, a, n)
                elif isinstance(f, ast.Attribute) and f.attr in ("join", "extend") \
                        and n.args:
                    self._site(n, n.args[0], n)
                elif isinstance(f, ast.Attribute) and f.attr == "pop" and not n.args:
                    r = self.unordered(f.value)
                    if r and not r.startswith("dict"):
                        self._add(n, f.value, r + " (set.pop() picks an arbitrary element)")
                for a in n.args:
                    if isinstance(a, ast.Starred):
                        self._site(n, a.value, n)
            elif isinstance(n, ast.Starred) and isinstance(
                    getattr(n, "_parent", None), (ast.Tuple, ast.List)):
                self._site(n, n.value, n)
            elif isinstance(n, ast.Assign) and isinstance(n.targets[0], (ast.Tuple, ast.List)) \
                    and len(n.targets[0].elts) > 1:
                self._site(n, n.value, n)       # a, b = some_set
        return self.sites

    def _site(self, construct, it, node):
        if _is_sorted_wrapped(it):
            return
        if isinstance(it, ast.Set) and len(it.elts) == 1:
            return      # one element: no order to speak of
        r = self.unordered(it)
        if r:
            self._add(construct, it, r)

    def _add(self, construct, it, why):
        stmt = construct
        while not isinstance(stmt, ast.stmt):
            stmt = stmt._parent
        if isinstance(construct, ast.For):
            text = f"for {ast.unparse(construct.target)} in {ast.unparse(construct.iter)}"
        else:
            text = ast.unparse(construct)
        text = " ".join(text.split())[:160]
        site = Site(self.qn, construct, it, why, text)
        site.discharged = self._discharge(construct, it)
        if not any(s.node is construct and s.iter_node is it for s in self.sites):
            self.sites.append(site)

    # -- discharge by form
    def _discharge(self, construct, it):
        par = getattr(construct, "_parent", None)
        # inside a `raise` statement: the order can only reach the exception's text
        p_ = construct
        while p_ is not None and not isinstance(p_, (ast.FunctionDef, ast.AsyncFunctionDef)):
            if isinstance(p_, ast.Raise):
                return "only builds the argument of an exception that is raised"
            p_ = getattr(p_, "_parent", None)
        if isinstance(construct, ast.SetComp):
            return "result is itself a set"
        if isinstance(construct, ast.DictComp):
            return "dict insertion order is tracked as taint (flagged where it is iterated)"
        if isinstance(construct, (ast.GeneratorExp, ast.ListComp)):
            tnames = {x.id for g in construct.generators for x in ast.walk(g.target)
                      if isinstance(x, ast.Name)}
            used = {x.id for x in ast.walk(construct.elt) if isinstance(x, ast.Name)}
            used |= {x.id for g in construct.generators for c_ in g.ifs
                     for x in ast.walk(c_) if isinstance(x, ast.Name)}
            if not (tnames & used):
                return "elements do not depend on the loop variable (length only)"
            if isinstance(par, ast.Call):
                f = par.func
                sole = len(par.args) == 1 and par.args[0] is construct
                if isinstance(f, ast.Name) and f.id in COMMUTATIVE_CONSUMERS and (
                        sole or f.id in ("sorted", "min", "max", "sum")):
                    return f"sole argument of {f.id}()"
                if isinstance(f, ast.Attribute) and f.attr in COMMUTATIVE_METHODS:
                    return f"argument of .{f.attr}()"
            if isinstance(par, ast.Starred):
                gp = getattr(par, "_parent", None)
                if isinstance(gp, ast.Call) and isinstance(gp.func, ast.Attribute) \
                        and gp.func.attr in ("combine", "union", "add_names"):
                    return f"splatted into commutative .{gp.func.attr}()"
            return None
        if isinstance(construct, ast.Call):
            f = construct.func
            if isinstance(f, ast.Name) and f.id == "tuple" and isinstance(par, ast.Call) \
                    and isinstance(par.func, ast.Name) and par.func.id in (
                        "isinstance", "issubclass") and len(par.args) == 2 \
                    and par.args[1] is construct:
                return "tuple of types for isinstance()"
            if isinstance(f, ast.Name) and f.id in ("list", "tuple") and isinstance(
                    par, ast.Call) and isinstance(par.func, ast.Name) \
                    and par.func.id in COMMUTATIVE_CONSUMERS:
                return f"{f.id}() immediately consumed by {par.func.id}()"
            return None
        if isinstance(construct, ast.For):
            if all(_commutative_stmt(s) for s in construct.body):
                return "loop body consists of commutative updates only"
            d = _fills_keyed_toposort_input(construct)
            if d:
                return d
            return None
        return None


def _fills_keyed_toposort_input(loop):
    """the loop only binds locals and stores entries `D[k] = v` of one mapping D, and
    D is used for nothing but `compute_topological_order(D, key=...)`: the order in
    which D was filled cannot be observed (ties are broken by the key)"""
    tables = set()
    for st in loop.body:
        if isinstance(st, (ast.Assign, ast.AnnAssign)):
            tg = st.targets if isinstance(st, ast.Assign) else [st.target]
            if all(isinstance(t, ast.Name) for t in tg):
                continue
            if len(tg) == 1 and isinstance(tg[0], ast.Subscript) \
                    and isinstance(tg[0].value, ast.Name):
                tables.add(tg[0].value.id)
                continue
        if isinstance(st, (ast.Assert, ast.Pass)):
            continue
        return None
    if len(tables) != 1:
        return None
    tbl = tables.pop()
    fd = loop
    while fd is not None and not isinstance(fd, (ast.FunctionDef, ast.AsyncFunctionDef)):
        fd = getattr(fd, "_parent", None)
    if fd is None:
        return None
    n_use = 0
    for x in ast.walk(fd):
        if isinstance(x, ast.Name) and x.id == tbl and isinstance(x.ctx, ast.Load):
            par = getattr(x, "_parent", None)
            if isinstance(par, ast.Subscript) and par.value is x and isinstance(
                    par.ctx, ast.Store):
                continue
            if isinstance(par, ast.Call) and par.args and par.args[0] is x \
                    and ast.unparse(par.func).split(".")[-1] == "compute_topological_order" \
                    and any(k.arg == "key" for k in par.keywords):
                n_use += 1
                continue
            return None
    if n_use:
        return (f"only fills `{tbl}`, which is used for nothing but "
                "compute_topological_order(..., key=...): ties are broken by the key")
    return None


def _own_nodes(fd):
    """nodes of fd's body without descending into nested defs (the nested def
    node itself is yielded)"""
    stack = list(reversed(fd.body))
    while stack:
        n = stack.pop()
        yield n
        if isinstance(n, (ast.FunctionDef, ast.AsyncFunctionDef, ast.ClassDef,
                          ast.Lambda)) :
            if isinstance(n, ast.Lambda):
                stack.append(n.body)
            continue
        stack.extend(reversed(list(ast.iter_child_nodes(n))))


def _is_sorted_wrapped(n):
    """sorted(x) puts an unordered x in order; sorted(x, key=k) does so only up to
    ties of k (the sort is stable: elements with equal keys keep the order they had
    in x, i.e. hash order), so a key is accepted only when it obviously cannot tie"""
    if not (isinstance(n, ast.Call) and isinstance(n.func, ast.Name)
            and n.func.id == "sorted"):
        return False
    for k in n.keywords:
        if k.arg == "key":
            v = ast.unparse(k.value)
            # identity-like keys and keys that name the element uniquely
            if v in ("str", "repr", "lambda x: x", "id") or v.endswith(".name") \
                    or v.endswith(".name)") or "attrgetter('name')" in v:
                continue
            # sorting the items of a mapping by their key: keys are unique
            kv = k.value
            if isinstance(kv, ast.Lambda) and len(kv.args.args) == 1 and n.args \
                    and isinstance(n.args[0], ast.Call) \
                    and isinstance(n.args[0].func, ast.Attribute) \
                    and n.args[0].func.attr == "items" \
                    and ast.unparse(kv.body) == f"{kv.args.args[0].arg}[0]":
                continue
            if v in ("itemgetter(0)", "operator.itemgetter(0)") and n.args \
                    and isinstance(n.args[0], ast.Call) \
                    and isinstance(n.args[0].func, ast.Attribute) \
                    and n.args[0].func.attr == "items":
                continue
            return False
    return True


def _commutative_stmt(s) -> bool:
    if isinstance(s, (ast.Assert, ast.Pass, ast.Continue, ast.Raise)):
        return True
    if isinstance(s, ast.Expr):
        v = s.value
        if isinstance(v, ast.Call) and isinstance(v.func, ast.Attribute) \
                and v.func.attr in ("add", "update", "discard", "add_names",
                                    "setdefault"):
            return True
        if isinstance(v, ast.Constant):
            return True
        return False
    if isinstance(s, ast.AugAssign):
        return isinstance(s.op, (ast.BitOr, ast.BitAnd, ast.Add)) and not isinstance(
            s.value, (ast.List, ast.Tuple, ast.JoinedStr)) or \
            isinstance(s.op, (ast.BitOr, ast.BitAnd))
    if isinstance(s, ast.If):
        return all(_commutative_stmt(x) for x in s.body + s.orelse)
    if isinstance(s, ast.Assign):
        t = s.targets[0]
        # d[k] = max(d[k], ..) / counters
        if isinstance(t, ast.Subscript) and isinstance(s.value, ast.Call) \
                and isinstance(s.value.func, ast.Name) \
                and s.value.func.id in ("max", "min"):
            return True
        return False
    if isinstance(s, ast.For):
        return all(_commutative_stmt(x) for x in s.body)
    return False


def scan(m: Model, modules, external_order_types=()) -> list[Site]:
    oa = OrderAnalysis(m, external_order_types)
    sites = []
    for mi, fd in m.all_functions(modules=modules):
        if m.enclosing_function(fd) is not None:
            continue
        cls = m.enclosing_class(fd)
        owner = None
        if cls is not None:
            owner = next((q for q, ci in m.classes.items() if ci.node is cls), None)
        sites += oa.analyse_function(mi, fd, owner)
    return sites
