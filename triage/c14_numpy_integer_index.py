import numpy as np, pytato as pt
from pytato.target.python import numpy_like as nl
import pytato.target.python as pp
x = pt.make_placeholder("x", (5, 4), np.float64)
def gen(e):
    try:
        prg = nl.generate_numpy_like(e, pp.JAXPythonTarget(), "f", False, (), ())
        return "ok"
    except Exception as ex:
        return f"ERR {type(ex).__name__}: {str(ex)[:100]}"
print("x[1]          ", gen(x[1]))
print("x[np.int64(1)]", gen(x[np.int64(1)]))
xs = pt.make_placeholder("xs", (np.int64(5), 4), np.float64)
print("zeros int shape", gen(pt.zeros((5,4)) + x))
print("zeros np shape ", gen(pt.zeros((np.int64(5),4)) + xs))
print("sum np shape   ", gen(pt.sum(xs, axis=0)))
print("roll np shift  ", gen(pt.roll(x, np.int64(1), 0)))
print(type(x[np.int64(1)].indices[0]))
