"""Triage: generated Python source (keyword-only argument order) vs PYTHONHASHSEED."""
import os, subprocess, sys
CHILD = r'''
import warnings; warnings.filterwarnings("ignore")
import numpy as np, pytato as pt
from pytato.target.python.numpy_like import generate_numpy_like
from pytato.target.python import JAXPythonTarget
xs = [pt.make_placeholder(n, (3,), np.float64) for n in ("alpha","beta","gamma","delta","eps")]
e = xs[0]+xs[1]*xs[2]-xs[3]/xs[4]
prg = generate_numpy_like(e, JAXPythonTarget(), "f", False, (), ())
print([l for l in prg.program.splitlines() if l.startswith("def ")][0])
'''
seen = set()
for seed in range(6):
    out = subprocess.run([sys.executable, "-c", CHILD], capture_output=True, text=True,
                         env=dict(os.environ, PYTHONHASHSEED=str(seed))).stdout.strip()
    seen.add(out)
print(len(seen), "distinct def lines over 6 hash seeds")
for s in sorted(seen): print("  ", s)
