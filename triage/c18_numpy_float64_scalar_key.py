"""pt.less(x, 2.0) and pt.less(x, np.float64(2.0)) compare equal and hash equal, but the
persistent key differs (comparison / logical operators keep the scalar as given, and a
numpy float64 -- although a subclass of Python float and equal to it -- is keyed with
its dtype).  C18: equal graphs have equal keys."""
import numpy as np
import pytato as pt
from pytato.analysis import PytatoKeyBuilder

x = pt.make_placeholder("x", (4,), np.float64)
a = pt.less(x, 2.0)
b = pt.less(x, np.float64(2.0))
kb = PytatoKeyBuilder()
print("equal:", a == b, "hash equal:", hash(a) == hash(b), "keys equal:", kb(a) == kb(b))
ok = not (a == b and kb(a) != kb(b))
print("PASS" if ok else "FAIL: equal graphs, different persistent keys")
raise SystemExit(0 if ok else 1)
