"""Triage: symbolic shapes that are equal for all n but structurally different (n+1 vs 1+n)."""
import warnings; warnings.filterwarnings("ignore")
import numpy as np, pytato as pt
n = pt.make_size_param("n")
a = pt.make_placeholder("a", (n + 1, 3), np.float64); b = pt.make_placeholder("b", (1 + n, 3), np.float64)
from pytato.utils import are_shapes_equal
print("are_shapes_equal(a.shape, b.shape):", are_shapes_equal(a.shape, b.shape), "| raw ==:", a.shape == b.shape)
def attempt(label, f):
    try: f(); print(label, "-> accepted")
    except Exception as e: print(label, "-> REJECTED", type(e).__name__, str(e)[:70])
attempt("stack([a, b])", lambda: pt.stack([a, b]))
attempt("a + b", lambda: a + b)
attempt("concatenate([a, b], axis=1)", lambda: pt.concatenate([a, b], axis=1))
attempt("atan2(a, b)", lambda: pt.arctan2(a, b))
ev = pt.make_placeholder("ev", (7,), np.float64); ci = pt.make_placeholder("ci", (7,), np.int32); rs = pt.make_placeholder("rs", (5,), np.int32)
mat = pt.make_csr_matrix((4, n + 1), ev, ci, rs)
x = pt.make_placeholder("x", (1 + n,), np.float64)
attempt("csr(4, n+1) @ x(1+n)", lambda: mat @ x)
from pytato.raising import index_lambda_to_high_level_op
attempt("raise(a + 1) [bindings shape vs out shape]", lambda: index_lambda_to_high_level_op(pt.array.make_index_lambda(__import__("pymbolic").var("a")[(__import__("pymbolic").var("_0"), __import__("pymbolic").var("_1"))] + 1, {"a": a}, b.shape, np.float64)))
