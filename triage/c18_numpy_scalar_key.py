"""Triage (documentation, not a check): persistent-key collision of unequal
graphs through numpy scalars.  Before fix 97edeb4 prints 'False True'.
Run: PYTHONPATH=/repo /venv/bin/python c18_numpy_scalar_key.py"""
import numpy as np, pytato as pt
from pytato.analysis import PytatoKeyBuilder
x = pt.make_placeholder("x", (4,), np.float64)
a = x + np.float32(2.0); b = x + np.int32(1073741824)
kb = PytatoKeyBuilder()
print(a == b, kb(a) == kb(b))
