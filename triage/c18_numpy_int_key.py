"""Triage (documentation, not a check): after 97edeb4 and before the follow-up
fix, x[1] and x[np.int64(1)] compared equal but had different persistent keys.
Run: PYTHONPATH=/repo /venv/bin/python c18_numpy_int_key.py   (prints: True True)"""
import numpy as np, pytato as pt
from pytato.analysis import PytatoKeyBuilder
x = pt.make_placeholder("x", (10, 4), np.float64)
kb = PytatoKeyBuilder()
print(x[1] == x[np.int64(1)], kb(x[1]) == kb(x[np.int64(1)]))
