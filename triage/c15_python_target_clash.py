"""Triage: two distinct placeholders with one name in the Python target; reshape order case."""
import warnings; warnings.filterwarnings("ignore")
import numpy as np, pytato as pt
from pytato.target.python.numpy_like import generate_numpy_like
from pytato.target.python import JAXPythonTarget
a1 = pt.make_placeholder("arr", (3,), np.float64); a2 = pt.make_placeholder("arr", (4,), np.float64)
try:
    prg = generate_numpy_like({"u": a1 * 2, "v": a2 + 1}, JAXPythonTarget(), "f", False, (), ())
    print("python target: accepted; def line:", [l for l in prg.program.splitlines() if l.startswith("def ")][0])
except Exception as e:
    print("python target: REJECTED", type(e).__name__, str(e)[:80])
try:
    pt.generate_loopy({"u": a1 * 2, "v": a2 + 1}); print("loopy target: accepted")
except Exception as e:
    print("loopy target: REJECTED", type(e).__name__, str(e)[:80])
# reshape order given in lower case
x = pt.make_placeholder("x", (2, 3), np.float64)
r = pt.reshape(x, (3, 2), order="c")
il = pt.to_index_lambda(r)
print("reshape(order='c'): stored order =", repr(r.order), "| lowered index expr:", il.expr)
print("reshape(order='C'):                          lowered index expr:", pt.to_index_lambda(pt.reshape(x, (3, 2), order="C")).expr)
