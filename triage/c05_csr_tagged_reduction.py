"""Triage: CSRMatmul.with_tagged_reduction must change nothing but the descriptor's tags."""
import warnings; warnings.filterwarnings("ignore")
import numpy as np, pytato as pt
from pytato.array import CSRMatmul, CSRMatrix, _get_default_axes
from pytato.tags import ImplStored
ev = pt.make_placeholder("ev", (4,), np.float64); ci = pt.make_placeholder("ci", (4,), np.int32)
rs = pt.make_placeholder("rs", (3,), np.int32); x = pt.make_placeholder("x", (5,), np.float64)
mat = CSRMatrix(shape=(2, 5), dtype=np.dtype(np.float64), elem_values=ev, elem_col_indices=ci, row_starts=rs,
                axes=_get_default_axes(2), tags=frozenset())
n = CSRMatmul(matrix=mat, array=x, reduction_var="_r7", axes=_get_default_axes(1), tags=frozenset())
t = n.with_tagged_reduction(ImplStored())
print("reduction_var before/after tagging:", n.reduction_var, t.reduction_var)
