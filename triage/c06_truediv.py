"""Triage: c / x is distributed over an einsum as if it were x / c."""
import warnings; warnings.filterwarnings("ignore")
import numpy as np, pytato as pt
from pytato.transform.einsum_distributive_law import apply_distributive_property_to_einsums, DoDistribute, DoNotDistribute
A = pt.make_placeholder("A", (3, 4), np.float64); x = pt.make_placeholder("x", (4,), np.float64)
y = A @ (2.0 / x)
def how(e): return DoDistribute(ioperand=1)
z = apply_distributive_property_to_einsums(y, how)
from pytato.raising import index_lambda_to_high_level_op, BinaryOp
top = index_lambda_to_high_level_op(z) if isinstance(z, pt.IndexLambda) else None
print("rewritten root:", type(z).__name__, "->", (top.binary_op, type(top.x1).__name__, type(top.x2).__name__) if isinstance(top, BinaryOp) else top)
print("i.e. A @ (2/x) became 2 / (A @ x):", isinstance(top, BinaryOp) and top.binary_op.name == "TRUEDIV" and isinstance(top.x2, pt.Einsum))
