# {{{ in-process multi-rank stand-in for mpi4py (threads + barriers)

import functools
import sys
import threading
import types


class _FakeOp:
    def __init__(self, fn):
        self.fn = fn

    @classmethod
    def Create(cls, fn, commute=False):  # noqa: N802
        return cls(fn)

    def Free(self):  # noqa: N802
        pass


_mpi4py = types.ModuleType("mpi4py")
_mpi = types.ModuleType("mpi4py.MPI")
_mpi.Op = _FakeOp
_mpi4py.MPI = _mpi
sys.modules.setdefault("mpi4py", _mpi4py)
sys.modules.setdefault("mpi4py.MPI", _mpi)


class _World:
    def __init__(self, size):
        self.size = size
        self.cond = threading.Condition()
        self.contrib = {}       # collective number -> {rank: object}
        self.gone = set()       # ranks that returned or raised


class PeerAborted(Exception):
    """Raised inside a rank when a collective cannot complete because some
    other rank has already left (in real MPI: this rank would hang)."""


class FakeComm:
    def __init__(self, world, rank):
        self.world = world
        self.rank = rank
        self.size = world.size
        self._ncoll = 0

    def Get_rank(self):  # noqa: N802
        return self.rank

    def Get_size(self):  # noqa: N802
        return self.size

    def _allgather(self, obj):
        w = self.world
        with w.cond:
            k = self._ncoll
            self._ncoll += 1
            slot = w.contrib.setdefault(k, {})
            slot[self.rank] = obj
            w.cond.notify_all()
            while len(slot) < w.size:
                if any(r in w.gone and r not in slot for r in range(w.size)):
                    raise PeerAborted()
                w.cond.wait(1.0)
            return [slot[r] for r in range(w.size)]

    def allreduce(self, obj, op):
        return functools.reduce(lambda a, b: op.fn(a, b, None),
                                self._allgather(obj))

    def bcast(self, obj, root=0):
        return self._allgather(obj)[root]

    def gather(self, obj, root=0):
        vals = self._allgather(obj)
        return vals if self.rank == root else None

    def barrier(self):
        self._allgather(None)


def run_ranks(size, fn):
    """Run fn(comm) on *size* emulated ranks. Returns, per rank, one of
    ("ok", value), ("raised", exc), ("hung", None)."""
    world = _World(size)
    results = [None] * size

    def target(rank):
        try:
            results[rank] = ("ok", fn(FakeComm(world, rank)))
        except PeerAborted:
            results[rank] = ("hung", None)
        except BaseException as exc:  # noqa: BLE001
            results[rank] = ("raised", exc)
        finally:
            with world.cond:
                world.gone.add(rank)
                world.cond.notify_all()

    threads = [threading.Thread(target=target, args=(r,)) for r in range(size)]
    for t in threads:
        t.start()
    for t in threads:
        t.join()
    return results

# }}}
