"""Triage (documentation, not a check): a received array forwarded unchanged
(recv -> send of that very array).  The receive and the sent array share one
generated name, which then is both a receive name and a part output."""
import os, sys
sys.path.insert(0, os.path.dirname(os.path.abspath(__file__)))
from fake_mpi_harness import run_ranks
import numpy as np, pytato as pt
def prog(rank):
    if rank == 0:
        x = pt.make_placeholder("x", (4,), np.float64)
        return pt.make_dict_of_named_arrays({"out": pt.staple_distributed_send(x, 1, "A", stapled_to=x)})
    if rank == 1:
        r = pt.make_distributed_recv(0, "A", (4,), np.float64)
        return pt.make_dict_of_named_arrays({"out": pt.staple_distributed_send(r, 2, "B", stapled_to=2*r)})
    r = pt.make_distributed_recv(1, "B", (4,), np.float64)
    return pt.make_dict_of_named_arrays({"out": r + 1})
def fn(comm):
    p = pt.find_distributed_partition(comm, prog(comm.rank))
    pt.verify_distributed_partition(comm, p)
    return {pid: (sorted(part.name_to_recv_node), sorted(part.output_names), sorted(part.name_to_send_nodes)) for pid, part in p.parts.items()}
for r in run_ranks(3, fn): print(r)
