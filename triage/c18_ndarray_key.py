"""Triage: persistent key of wrapped data with identical bytes but different dtype / shape."""
import warnings; warnings.filterwarnings("ignore")
import numpy as np, pytato as pt
from pytato.analysis import PytatoKeyBuilder
kb = PytatoKeyBuilder()
a = pt.make_data_wrapper(np.zeros(4, np.int64)); b = pt.make_data_wrapper(np.zeros(4, np.float64))
print("i8 vs f8 zeros(4): same key:", kb(a) == kb(b))
c = pt.make_data_wrapper(np.zeros((2, 4), np.float32)); d = pt.make_data_wrapper(np.zeros((4, 2), np.float32))
print("(2,4) vs (4,2) f4: same key:", kb(c) == kb(d), "(DataWrapper.shape is a field)")
print("raw ndarray (2,4) vs (4,2): same key:", kb(np.zeros((2, 4))) == kb(np.zeros((4, 2))))
print("raw ndarray i8 vs f8: same key:", kb(np.zeros(4, np.int64)) == kb(np.zeros(4, np.float64)))
print("one element changed -> differs:", kb(np.zeros(4)) != kb(np.array([0, 0, 1, 0.0])))
