"""Triage: users vs direct predecessors disagree on some edge kinds."""
import warnings; warnings.filterwarnings("ignore")
import numpy as np, pytato as pt
from pytato.analysis import get_list_of_users, DirectPredecessorsGetter, ListOfDirectPredecessorsGetter
from pytato.transform import get_users
n = pt.make_size_param("n")
a = pt.make_placeholder("a", (n, 3), np.float64); b = pt.make_placeholder("b", (n, 3), np.float64)
s = pt.stack([a, b])
preds = ListOfDirectPredecessorsGetter()(s)
users = get_list_of_users(s)
print("stack: n in preds(stack):", any(p is n for p in preds), "; stack in list-users(n):", any(u is s for u in users[n]))
d = pt.make_dict_of_named_arrays({"o": a + 1})
inner = d._data["o"]
print("dict: inner in preds(dict):", any(p is inner for p in ListOfDirectPredecessorsGetter()(d)),
      "; dict in list-users(inner):", any(u is d for u in get_list_of_users(d)[inner]),
      "; dict in set-users(inner):", any(u is d for u in get_users(d)[inner]))
try:
    print("preds(NamedArray):", ListOfDirectPredecessorsGetter()(d["o"]))
except Exception as e:
    print("preds(NamedArray) RAISES", type(e).__name__, e)
def f(x): return x * 2
r = pt.trace_call(f, a)
call = r._container
print("call: a in preds(call):", any(p is a for p in ListOfDirectPredecessorsGetter()(call)),
      "; call in list-users(a):", any(u is call for u in get_list_of_users(r)[a]),
      "; call in set-users(a):", any(u is call for u in get_users(r).get(a, ())),
      "; named result in set-users(a):", any(u is r for u in get_users(r).get(a, ())))
