"""Triage: identity copy of a node whose mapping field is not in sorted key order."""
import warnings; warnings.filterwarnings("ignore")
import numpy as np, pytato as pt
from pytato.transform import CopyMapper, Deduplicator
from pymbolic import var
x = pt.make_placeholder("x", (4,), np.float64); y = pt.make_placeholder("y", (4,), np.float64)
il = pt.array.make_index_lambda(var("b")[var("_0")] + var("a")[var("_0")], {"b": x, "a": y}, (4,), np.float64)
print("bindings order:", list(il.bindings))
r = CopyMapper()(il)
print("CopyMapper()(il) is il:", r is il, "| equal:", r == il)
out = (il * 2) + il
r2 = CopyMapper()(out)
print("identity copy of a graph above it returns its argument:", r2 is out)
