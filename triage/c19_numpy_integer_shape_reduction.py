import numpy as np, pytato as pt
from pytato.raising import index_lambda_to_high_level_op as hlo
x = pt.make_placeholder("x", (np.int64(3), 4), np.float64)
try:
    print(hlo(pt.sum(x, axis=0)))
except Exception as e:
    print("ERR", type(e).__name__, str(e)[:200])
x2 = pt.make_placeholder("x", (3, 4), np.float64)
print(type(hlo(pt.sum(x2, axis=0))).__name__)
print(x.shape, type(x.shape[0]))
