"""Triage (run once by hand, not a check): reproduce C04 findings on the real code."""
import warnings; warnings.filterwarnings("ignore")
import dataclasses
import numpy as np
import pytato as pt
from pytato.array import CSRMatmul, CSRMatrix, ReductionDescriptor, Axis
from constantdict import constantdict

p = pt.make_placeholder("p", (2, 3), np.float64)
a, b = pt.reshape(p, (3, 2), "C"), pt.reshape(p, (3, 2), "F")
print("1 reshape C==F:", a == b, "hash eq:", hash(a) == hash(b))

il = p + 1
il2 = dataclasses.replace(il, dtype=np.dtype(np.float32))
print("2 index lambda dtype ignored:", il == il2, "hash eq:", hash(il) == hash(il2))

ev = pt.make_placeholder("ev", (4,), np.float64)
ci = pt.make_placeholder("ci", (4,), np.int32)
rs = pt.make_placeholder("rs", (3,), np.int32)
x = pt.make_placeholder("x", (5,), np.float64)
from pytato.array import _get_default_axes
def mk(shape=(2, 5), dtype=np.float64, mtags=frozenset(), rv="_r0", rd=None):
    mat = CSRMatrix(shape=shape, dtype=np.dtype(dtype), elem_values=ev, elem_col_indices=ci,
                    row_starts=rs, axes=_get_default_axes(2), tags=mtags)
    kw = {} if rd is None else {"reduction_descr": rd}
    return CSRMatmul(matrix=mat, array=x, reduction_var=rv, axes=_get_default_axes(1), tags=frozenset(), **kw)
from pytato.tags import ImplStored
base = mk()
for name, other in [("matrix.shape", mk(shape=(7, 5))), ("matrix.dtype", mk(dtype=np.float32)),
                    ("matrix.tags", mk(mtags=frozenset([ImplStored()]))), ("reduction_var", mk(rv="_r7")),
                    ("reduction_descr", mk(rd=ReductionDescriptor(frozenset([ImplStored()]))))]:
    print("3 csr", name, "==:", base == other, "hash eq:", hash(base) == hash(other), "shape", base.shape, other.shape, base.dtype, other.dtype)

r1 = pt.make_distributed_recv(0, 1, (3,), np.float64)
r2 = dataclasses.replace(r1, axes=(Axis(frozenset([ImplStored()])),))
print("3 recv axes ignored:", r1 == r2, "hash eq:", hash(r1) == hash(r2))

import loopy as lp
from pytato.loopy import call_loopy, LoopyCall
knl = lp.make_kernel("{[i]: 0<=i<4}", "out[i] = a[i] + b[i]",
    [lp.GlobalArg("a,b", np.float64, shape=(4,)), lp.GlobalArg("out", np.float64, shape=(4,), is_output=True)], target=lp.CTarget())
xx = pt.make_placeholder("x", (4,), np.float64); yy = pt.make_placeholder("y", (4,), np.float64)
c1 = call_loopy(knl, {"a": xx, "b": yy})
c2 = LoopyCall(c1.translation_unit, constantdict({"b": yy, "a": xx}), c1.entrypoint, tags=c1.tags)
print("4 loopy eq:", c1 == c2, "hash eq:", hash(c1) == hash(c2))
