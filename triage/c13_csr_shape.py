"""Triage: no mapper traverses CSRMatrix.shape (symbolic sparse-matrix shape)."""
import warnings; warnings.filterwarnings("ignore")
import numpy as np, pytato as pt
from pytato.transform import map_and_copy, InputGatherer
n = pt.make_size_param("n"); k = pt.make_size_param("k")
ev = pt.make_placeholder("ev", (7,), np.float64)
ci = pt.make_placeholder("ci", (7,), np.int32)
rs = pt.make_placeholder("rs", (4,), np.int32)          # static row_starts
x = pt.make_placeholder("x", (5,), np.float64)
mat = pt.array.CSRMatrix(shape=(n, 5), dtype=np.dtype(np.float64), elem_values=ev, elem_col_indices=ci,
                         row_starts=rs, axes=pt.array._get_default_axes(2), tags=frozenset())
y = mat @ x
print("y.shape", y.shape)
print("inputs found:", sorted(i.name for i in InputGatherer()(y)), "-- 'n' (a shape dependency of y) missing:", "n" not in {i.name for i in InputGatherer()(y)})
m = pt.make_size_param("m")
y2 = map_and_copy(y, lambda e: m if isinstance(e, pt.SizeParam) and e.name == "n" else e)
print("after renaming n->m the result shape still refers to:", y2.shape[0].name)
from pytato.analysis import get_num_nodes
r = pt.reshape(pt.make_placeholder("q", (6,), np.float64), (2, 3))
from pytato.array import Reshape
rr = Reshape(r.array, (n, 3), "C", axes=r.axes, tags=r.tags)
from pytato.transform import TopoSortMapper
t = TopoSortMapper(); t(rr); print("toposort of Reshape with symbolic newshape visits n:", any(e is n for e in t.topological_order))
