"""Triage: instruction order of reduction-bound temporaries vs PYTHONHASHSEED
(index lambda holding two reductions with data-dependent bounds)."""
import os, subprocess, sys
CHILD = r'''
import warnings; warnings.filterwarnings("ignore")
import numpy as np, pytato as pt, pymbolic.primitives as prim
from pytato.scalar_expr import Reduce
from pytato.reductions import SumReductionOperation
from pytato.array import make_index_lambda
from pymbolic import var
def red(rv, lo, hi, arr):
    return Reduce(var(arr)[(var(rv),)], SumReductionOperation(), __import__("constantdict").constantdict({rv: (var(lo)[(var("_0"),)], var(hi)[(var("_0"),)])}))
names = ["lo_a","hi_a","lo_b","hi_b","lo_c","hi_c"]
b = {n: pt.make_placeholder(n, (4,), np.int64) for n in names}
b["va"] = pt.make_placeholder("va", (9,), np.float64); b["vb"] = pt.make_placeholder("vb", (9,), np.float64); b["vc"] = pt.make_placeholder("vc", (9,), np.float64)
e = red("_r0","lo_a","hi_a","va") + red("_r1","lo_b","hi_b","vb") + red("_r2","lo_c","hi_c","vc")
il = make_index_lambda(e, b, (4,), np.float64)
prg = pt.generate_loopy(il)
knl = prg.program.default_entrypoint
print([i.id for i in knl.instructions])
'''
seen = set()
for seed in range(8):
    r = subprocess.run([sys.executable, "-c", CHILD], capture_output=True, text=True,
                       env=dict(os.environ, PYTHONHASHSEED=str(seed)))
    seen.add(r.stdout.strip() or r.stderr.strip()[-300:])
print(len(seen), "distinct instruction orders over 8 hash seeds")
for s in sorted(seen): print("  ", s[:300])
