"""Triage (documentation, not a check): before fix 31a8e8f,
(y+1).with_tagged_axis(-1, T()) had 4 axes for ndim 2 and generate_loopy raised
ValueError (zip strict) while the untagged program compiles.
Run: PYTHONPATH=/repo /venv/bin/python c07_with_tagged_axis_negative.py"""
import numpy as np, pytato as pt
from pytools.tag import Tag
class T(Tag): pass
y = pt.make_placeholder("y", (4, 5), np.float64)
z = (y+1).with_tagged_axis(-1, T())
print(len(z.axes), z.ndim)
pt.generate_loopy(z); print("generated")
