"""Triage: axis argument range of concatenate."""
import warnings; warnings.filterwarnings("ignore")
import numpy as np, pytato as pt
a = pt.make_placeholder("a", (2, 3), np.float64); b = pt.make_placeholder("b", (2, 3), np.float64)
for ax in (-1, 0, 1, 2, 3):
    try:
        c = pt.concatenate([a, b], axis=ax)
        try:
            print("axis", ax, "accepted at construction; shape:", c.shape)
        except Exception as e:
            print("axis", ax, "accepted at construction; .shape RAISES LATER:", type(e).__name__, e)
    except Exception as e:
        print("axis", ax, "rejected at construction:", type(e).__name__, e)
    try:
        np.concatenate([np.zeros((2, 3)), np.zeros((2, 3))], axis=ax); print("   numpy accepts")
    except Exception as e:
        print("   numpy rejects:", type(e).__name__)
