"""Triage: trace_call with keyword arguments; SizeParamGatherer over function bodies."""
import warnings; warnings.filterwarnings("ignore")
import numpy as np, pytato as pt
from pytato.transform import SizeParamGatherer
x = pt.make_placeholder("x", (4,), np.float64); y = pt.make_placeholder("y", (4,), np.float64)
def f(a, b): return a + 2*b
try:
    r = pt.trace_call(f, x, b=y); print("trace_call(f, x, b=y) ok:", type(r).__name__, sorted(r._container.bindings))
except Exception as e:
    print("trace_call(f, x, b=y) RAISES", type(e).__name__, str(e)[:100])
# same placeholder name inside the function body and at the call site -> same node in two name spaces
n = pt.make_size_param("n")
def g(a): return a * 2
u = pt.make_placeholder("in__pt_0", (n,), np.float64)     # caller placeholder named like the callee's parameter
r = pt.trace_call(g, u) + 1
try:
    print("SizeParamGatherer:", sorted(s.name for s in SizeParamGatherer()(r)))
except Exception as e:
    print("SizeParamGatherer RAISES", type(e).__name__, str(e)[:100])
