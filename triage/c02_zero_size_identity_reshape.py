import numpy as np, pytato as pt
from pytato.transform.lower_to_index_lambda import to_index_lambda
for shp, new in [((0,2),(0,2)), ((0,2),(2,0)), ((0,2),(0,)), ((3,0),(0,3)), ((2,3),(2,3))]:
    x = pt.make_placeholder("x", shp, np.float64)
    try:
        r = pt.reshape(x, new); il = to_index_lambda(r); print(shp, new, "ok", il.shape)
    except Exception as e:
        print(shp, new, "ERR", type(e).__name__, str(e)[:100])
print(np.zeros((0,2)).reshape((0,2)).shape, np.zeros((0,2)).reshape((2,0)).shape)
