"""Triage: tagging a NamedArray intermediate (entry of a DictOfNamedArrays)."""
import warnings; warnings.filterwarnings("ignore")
import numpy as np, pytato as pt
from pytato.tags import ImplStored
x = pt.make_placeholder("x", (4,), np.float64)
d = pt.make_dict_of_named_arrays({"a": x * 2})
for label, e in [("untagged", d["a"] + 1), ("tagged", d["a"].tagged(ImplStored()) + 1)]:
    try:
        pt.generate_loopy(e); print(label, "-> generate_loopy ok")
    except Exception as ex:
        print(label, "-> RAISES", type(ex).__name__, str(ex)[:80])
