"""Python target: (1) (-2) ** x is emitted as `-2 ** x`, which Python reads as -(2 ** x);
(2) x + np.float32(inf) is emitted as `x + np.float32(inf)`: NameError when the generated
function runs.  Both come from handing the scalar to ast.Constant and letting
ast.unparse print its repr.  (No JAX here: the generated source is executed with NumPy
standing in for jax.numpy.)"""
import numpy as np
import pytato as pt
from pytato.target.python import JAXPythonTarget
from pytato.target.python.numpy_like import generate_numpy_like


def run(expr, **args):
    prg = generate_numpy_like(expr, JAXPythonTarget(), "f", False, (), ())
    src = str(prg.program).replace("import jax.numpy as", "import numpy as")
    src = "\n".join(l for l in src.splitlines() if not l.strip().startswith("@"))
    ns = {}
    exec(src, ns)
    return ns["f"](**args), src


ok = True
x = pt.make_placeholder("x", (3,), np.float64)
xv = np.array([1.0, 2.0, 3.0])
for e, ref in (((-2) ** x, (-2) ** xv), ((-2.0) ** x, (-2.0) ** xv),
               (x + np.float32(np.inf), xv + np.float32(np.inf)),
               (x * np.float64(-np.inf), xv * np.float64(-np.inf))):
    try:
        got, src = run(e, x=xv)
        if not np.array_equal(np.asarray(got), ref):
            print("FAIL: wrong value", [l.strip() for l in src.splitlines() if "_pt_tmp =" in l],
                  got, "expected", ref)
            ok = False
    except Exception as ex:
        print("FAIL:", type(ex).__name__, ex)
        ok = False
print("PASS" if ok else "FAIL")
raise SystemExit(0 if ok else 1)
