"""Triage: code generation for a graph that keeps a (not inlined) call."""
import warnings; warnings.filterwarnings("ignore")
import numpy as np, pytato as pt
x = pt.make_placeholder("x", (4,), np.float64)
def f(a): return 2*a
r = pt.trace_call(f, x)
try:
    prg = pt.generate_loopy(r + 1)
    print("generate_loopy ok; callables:", sorted(prg.program.callables_table))
except Exception as e:
    import traceback
    print("generate_loopy RAISES", type(e).__name__, str(e)[:120])
    print(traceback.format_exc().splitlines()[-4].strip())
