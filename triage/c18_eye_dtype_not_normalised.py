"""pt.eye hands its dtype argument to IndexLambda as given: np.float64 (a type), "float64"
and np.dtype("float64") build nodes that compare equal but hash / key differently
(C04: equal => equal hash; C18: equal graphs => equal keys)."""
import numpy as np
import pytato as pt
from pytato.analysis import PytatoKeyBuilder

a = pt.eye(3, dtype=np.float64)
b = pt.eye(3, dtype=np.dtype("float64"))
print("dtype fields:", repr(a.dtype), repr(b.dtype))
kb = PytatoKeyBuilder()
ok = True
if a == b and hash(a) != hash(b):
    print("FAIL: equal arrays, different hash"); ok = False
if a == b and kb(a) != kb(b):
    print("FAIL: equal arrays, different persistent key"); ok = False
if not isinstance(a.dtype, np.dtype):
    print("FAIL: eye(...).dtype is not a np.dtype:", type(a.dtype)); ok = False
print("PASS" if ok else "FAIL")
raise SystemExit(0 if ok else 1)
