"""Triage (documentation, not a check): two sends with the same
(source, destination, tag), one nested inside the DATA of the other.
Before fix: find_distributed_partition + verify_distributed_partition return
on both ranks (the second registration silently overwrites the first): no
DuplicateSendError.  Run: PYTHONPATH=/repo /venv/bin/python c10_nested_duplicate_send.py"""
import os, sys
sys.path.insert(0, os.path.dirname(os.path.abspath(__file__)))
from fake_mpi_harness import run_ranks
import numpy as np, pytato as pt
x = pt.make_placeholder("x", (4,), np.float64)
inner = pt.staple_distributed_send(5*x, 1, "A", stapled_to=2*x)   # send #1 (0->1,"A")
p0 = pt.make_dict_of_named_arrays({"out": pt.staple_distributed_send(inner, 1, "A", stapled_to=x)})  # send #2 same id, data contains #1
p1 = pt.make_dict_of_named_arrays({"out": pt.make_distributed_recv(0, "A", (4,), np.float64)})
progs = [p0, p1]
def fn(comm):
    p = pt.find_distributed_partition(comm, progs[comm.rank]); pt.verify_distributed_partition(comm, p); return "returned"
print(run_ranks(2, fn))
