"""Triage: a data wrapper tagged Named('x') next to a placeholder named 'x'."""
import warnings; warnings.filterwarnings("ignore")
import numpy as np, pytato as pt
from pytato.tags import Named, PrefixNamed
x = pt.make_placeholder("x", (4,), np.float64)
d = pt.make_data_wrapper(np.arange(4.0)).tagged(Named("x"))
try:
    prg = pt.generate_loopy({"out": x + d})
    knl = prg.program.default_entrypoint
    print("generate_loopy ok; args:", [a.name for a in knl.args], "bound:", sorted(prg.bound_arguments))
    print("-> placeholder 'x' and the bound data share the name 'x':", "x" in prg.bound_arguments)
except Exception as e:
    print("generate_loopy RAISES", type(e).__name__, str(e)[:150])
# output key equal to the name a Named-tagged data wrapper wants
d2 = pt.make_data_wrapper(np.arange(4.0)).tagged(Named("out"))
try:
    prg = pt.generate_loopy({"out": x + d2})
    knl = prg.program.default_entrypoint
    print("output/out: args:", [a.name for a in knl.args], "bound:", sorted(prg.bound_arguments))
except Exception as e:
    print("output/out RAISES", type(e).__name__, str(e)[:150])
# PrefixNamed('x') data wrapper next to placeholder x and x_0
d3 = pt.make_data_wrapper(np.arange(4.0)).tagged(PrefixNamed("x"))
try:
    prg = pt.generate_loopy({"out": x + d3})
    knl = prg.program.default_entrypoint
    print("prefix: args:", [a.name for a in knl.args], "bound:", sorted(prg.bound_arguments))
except Exception as e:
    print("prefix RAISES", type(e).__name__, str(e)[:150])
