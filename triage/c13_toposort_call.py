"""Triage: TopoSortMapper / _SeenNodesWalkMapper on a graph containing a Call."""
import warnings; warnings.filterwarnings("ignore")
import numpy as np, pytato as pt
from pytato.transform import TopoSortMapper
def f(a, b): return a + b
x = pt.make_placeholder("x", (4,), np.float64); y = pt.make_placeholder("y", (4,), np.float64)
r = pt.trace_call(f, x, y) * 2
for name, mk in [("TopoSortMapper", lambda: TopoSortMapper())]:
    m = mk()
    try:
        m(r); print(name, "ok", len(m.topological_order))
    except Exception as e:
        print(name, "RAISES", type(e).__name__, e)
from pytato.distributed.verify import _SeenNodesWalkMapper
m = _SeenNodesWalkMapper()
try:
    m(r); print("_SeenNodesWalkMapper ok")
except Exception as e:
    print("_SeenNodesWalkMapper RAISES", type(e).__name__, e)
from pytato.codegen import normalize_outputs
from pytato.analysis import get_num_nodes
print("num nodes", get_num_nodes(r))
