"""Triage: raiser / producer defects (zeros_like, logical_not, n-ary sums)."""
import warnings; warnings.filterwarnings("ignore")
import numpy as np, pytato as pt, pymbolic.primitives as p
from pytato.raising import index_lambda_to_high_level_op as hlo
from pytato.array import make_index_lambda
from pymbolic import var
x = pt.make_placeholder("x", (4,), np.float64); y = pt.make_placeholder("y", (4,), np.float64); z = pt.make_placeholder("z", (4,), np.float64)
def attempt(label, f):
    try: print(label, "->", f())
    except Exception as e: print(label, "-> RAISES", type(e).__name__, str(e)[:90])
attempt("hlo(zeros_like(x))", lambda: type(hlo(pt.zeros_like(x))).__name__)
attempt("logical_not(x>0)", lambda: type(pt.logical_not(pt.greater(x, 0)).expr).__name__)
attempt("hlo(logical_not(x>0))", lambda: type(hlo(pt.logical_not(pt.greater(x, 0)))).__name__)
i = (var("_0"),)
il3 = make_index_lambda(p.Sum((var("a")[i], var("b")[i], var("c")[i])), {"a": x, "b": y, "c": z}, (4,), np.float64)
attempt("hlo(three-operand sum)", lambda: type(hlo(il3)).__name__)
