import numpy as np, pytato as pt
def f(a, b): return a * 2 + b
x = pt.make_placeholder("in__pt_0", (4,), np.float64)   # same name as f's first parameter placeholder
y = pt.make_placeholder("y", (4,), np.float64)
r = pt.trace_call(f, x, y)
out = pt.make_dict_of_named_arrays({"out": r + 1})
try:
    inl = pt.inline_calls(pt.tag_all_calls_to_be_inlined(out))
    print("inlined ok", inl["out"].expr if hasattr(inl["out"], "expr") else "")
except Exception as e:
    print("ERR", type(e).__name__, str(e)[:300])
# control: different name
x2 = pt.make_placeholder("x", (4,), np.float64)
out2 = pt.make_dict_of_named_arrays({"out": pt.trace_call(f, x2, y) + 1})
inl2 = pt.inline_calls(pt.tag_all_calls_to_be_inlined(out2)); print("control ok")
