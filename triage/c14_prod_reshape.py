"""Triage: generated Python code for product reductions and F-order reshapes, run with real NumPy."""
import warnings; warnings.filterwarnings("ignore")
import numpy as np, pytato as pt
from pytato.target.python.numpy_like import generate_numpy_like
from pytato.target.python import JAXPythonTarget
p = pt.make_placeholder("p", (2, 3), np.float64)
prg = generate_numpy_like({"r": pt.reshape(p, (3, 2), order="F"), "q": pt.prod(p)}, JAXPythonTarget(), "f", False, (), ())
src = prg.program.replace("jax.numpy", "numpy")
print("\n".join("   " + l for l in src.splitlines() if "reshape" in l or "prod" in l))
ns = {}; exec(src, ns)
a = np.arange(6.0).reshape(2, 3)
try:
    out = ns["f"](p=a)
    print("reshape F matches numpy:", np.array_equal(out["r"], a.reshape((3, 2), order="F")), "| prod matches:", out["q"] == a.prod())
except Exception as e:
    print("generated code RAISES", type(e).__name__, e)
