"""Triage: broadcast recogniser on permuted subscripts, 0-d operands; NaN fill."""
import warnings; warnings.filterwarnings("ignore")
import numpy as np, pytato as pt
from pymbolic import var
from pytato.raising import index_lambda_to_high_level_op as hlo
from pytato.array import make_index_lambda
a = pt.make_placeholder("a", (3, 3), np.float64)
def attempt(label, f):
    try: print(label, "->", f())
    except Exception as e: print(label, "-> RAISES", type(e).__name__, str(e)[:80])
perm = make_index_lambda(var("a")[(var("_1"), var("_0"))], {"a": a}, (3, 3), np.float64)
attempt("hlo(a[_1, _0])  (a transpose)", lambda: type(hlo(perm)).__name__)
s = pt.make_placeholder("s", (), np.float64)
attempt("hlo(broadcast_to(0-d, (2,3)))", lambda: type(hlo(pt.broadcast_to(s, (2, 3)))).__name__)
attempt("hlo(broadcast_to(a(3,3), (2,3,3)))", lambda: type(hlo(pt.broadcast_to(a, (2, 3, 3)))).__name__)
attempt("hlo(full((2,), nan))", lambda: type(hlo(pt.full((2,), np.nan))).__name__)
attempt("hlo(full((2,), 1.5))", lambda: type(hlo(pt.full((2,), 1.5))).__name__)
